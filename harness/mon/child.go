package mon

import (
	"encoding/json"
	"fmt"
	"os"
	"runtime/debug"
	"sort"
	"strconv"
	"strings"
)

// Violation is one refuting observation.
type Violation struct {
	// Class is a signature id assigned by the property's classifier when the
	// discrepancy matches the precise predicate of a catalogued defect; ""
	// when it matches none.
	Class   string      `json:"class"`
	CaseKey string      `json:"case_key"`
	Batch   int         `json:"batch"`
	What    string      `json:"what"`
	Detail  interface{} `json:"detail,omitempty"`
}

// BatchResult is what one child writes when it finishes.
type BatchResult struct {
	Property     string            `json:"property"`
	Batch        int               `json:"batch"`
	Evaluations  int64             `json:"evaluations"`
	Nontrivial   []uint64          `json:"nontrivial"`
	NontrivialN  int64             `json:"nontrivial_n"` // distinct by construction (enumerated without repetition)
	Features     map[string]int64  `json:"features"`
	Samples      []interface{}     `json:"samples"`
	Violations   []Violation       `json:"violations"`
	ViolCount    map[string]int64  `json:"viol_count"`
	Unspecified  int64             `json:"unspecified"`
	Inconclusive int64             `json:"inconclusive"`
	Notes        map[string]string `json:"notes,omitempty"`
	Exhaustive   bool              `json:"exhaustive,omitempty"`
	Done         bool              `json:"done"`
}

// Child is the context handed to a property's batch function.
type Child struct {
	ID     string
	Tier   string
	Seed   int64
	Batch  int
	NBatch int
	Only   string // when set, run only the case with this key (replay)
	Out    string

	res     BatchResult
	nt      map[uint64]struct{}
	journal *os.File
	maxViol int
}

// Thorough reports whether the thorough tier was requested.
func (c *Child) Thorough() bool { return c.Tier == "thorough" }

// N picks a size by tier.
func (c *Child) N(quick, thorough int) int {
	if c.Thorough() {
		return thorough
	}
	return quick
}

// RNG derives a generator for this batch and the given purpose.
func (c *Child) RNG(keys ...interface{}) *RNG {
	k := append([]interface{}{c.ID, c.Batch}, keys...)
	return NewRNG(c.Seed, k...)
}

// Want reports whether the case with this key should run (replay filter).
func (c *Child) Want(key string) bool { return c.Only == "" || c.Only == key }

// Begin journals the case about to run. The line is written straight to the
// file so that it survives a fatal error of the process.
func (c *Child) Begin(key string, desc string) {
	if c.journal != nil {
		fmt.Fprintf(c.journal, "BEGIN %s %s\n", key, strconv.Quote(desc))
	}
}

// End journals completion of the current case.
func (c *Child) End(key string) {
	if c.journal != nil {
		fmt.Fprintf(c.journal, "END %s\n", key)
	}
}

// Eval counts executions.
func (c *Child) Eval(n int) { c.res.Evaluations += int64(n) }

// Nontrivial records a distinct non-trivial case by its canonical text.
func (c *Child) Nontrivial(canon string) { c.nt[Hash64(canon)] = struct{}{} }

// NontrivialEnumerated counts non-trivial cases that are distinct by
// construction (an enumeration without repetition), without storing hashes.
func (c *Child) NontrivialEnumerated(n int64) { c.res.NontrivialN += n }

// Feature bumps an observed-feature counter.
func (c *Child) Feature(name string) { c.res.Features[name]++ }

// FeatureN adds to an observed-feature counter.
func (c *Child) FeatureN(name string, n int64) { c.res.Features[name] += n }

// FeatureMax keeps the maximum of an observed quantity.
func (c *Child) FeatureMax(name string, n int64) {
	if n > c.res.Features[name] {
		c.res.Features[name] = n
	}
}

// Sample keeps a few actual cases for the evidence file.
func (c *Child) Sample(v interface{}) {
	if len(c.res.Samples) < 4 {
		c.res.Samples = append(c.res.Samples, v)
	}
}

// Unspecified counts a case whose expected result the documentation leaves open.
func (c *Child) Unspecified(why string) {
	c.res.Unspecified++
	c.res.Features["unspecified:"+why]++
}

// Inconclusive counts a case that could not be decided.
func (c *Child) Inconclusive(why string) {
	c.res.Inconclusive++
	c.res.Features["inconclusive:"+why]++
}

// Note stores a free-text note.
func (c *Child) Note(k, v string) {
	if c.res.Notes == nil {
		c.res.Notes = map[string]string{}
	}
	c.res.Notes[k] = v
}

// SetExhaustive marks the batch as having enumerated its stated scope fully.
func (c *Child) SetExhaustive() { c.res.Exhaustive = true }

// Violation records a refuting observation. At most a few per class keep
// their detail; all are counted.
func (c *Child) Violation(class, key, what string, detail interface{}) {
	ck := class
	if ck == "" {
		ck = "unclassified"
	}
	c.res.ViolCount[ck]++
	kept := 0
	for _, v := range c.res.Violations {
		if v.Class == class {
			kept++
		}
	}
	lim := 2
	if class == "" {
		lim = c.maxViol
	}
	if kept < lim {
		c.res.Violations = append(c.res.Violations, Violation{Class: class, CaseKey: key, Batch: c.Batch, What: what, Detail: detail})
	}
}

// ViolationTotal returns how many violations were recorded so far.
func (c *Child) ViolationTotal() int64 {
	var n int64
	for _, v := range c.res.ViolCount {
		n += v
	}
	return n
}

// Flush writes the result file.
func (c *Child) Flush(done bool) {
	c.res.Done = done
	c.res.Nontrivial = c.res.Nontrivial[:0]
	for h := range c.nt {
		c.res.Nontrivial = append(c.res.Nontrivial, h)
	}
	sort.Slice(c.res.Nontrivial, func(i, j int) bool { return c.res.Nontrivial[i] < c.res.Nontrivial[j] })
	b, err := json.Marshal(&c.res)
	if err != nil {
		// Fall back to dropping details that do not serialise.
		for i := range c.res.Violations {
			c.res.Violations[i].Detail = fmt.Sprintf("%v", c.res.Violations[i].Detail)
		}
		c.res.Samples = nil
		b, _ = json.Marshal(&c.res)
	}
	tmp := c.Out + ".tmp"
	_ = os.WriteFile(tmp, b, 0o644)
	_ = os.Rename(tmp, c.Out)
}

// Guard runs f under recover and reports whether it panicked, with the panic
// value rendered and a short stack. participle panics with values that print
// as "<nil>", hence the explicit flag.
func Guard(f func()) (panicked bool, val string, stack string) {
	defer func() {
		if r := recover(); r != nil || panicked {
			val = fmt.Sprintf("%v", r)
			stack = shortStack(string(debug.Stack()))
			panicked = true
		}
	}()
	panicked = true
	f()
	panicked = false
	return
}

func shortStack(s string) string {
	lines := strings.Split(s, "\n")
	out := []string{}
	for _, l := range lines {
		if strings.Contains(l, "/repo/") || strings.Contains(l, "participle") && strings.HasPrefix(strings.TrimSpace(l), "github.com") {
			out = append(out, strings.TrimSpace(l))
		}
		if len(out) >= 12 {
			break
		}
	}
	return strings.Join(out, " | ")
}

// ChildFunc is a property's batch body.
type ChildFunc func(c *Child)

// RunChild is the child-side entry: args = ID tier seed batch nbatch out.
func RunChild(args []string, f ChildFunc) {
	if len(args) < 6 {
		fmt.Fprintln(os.Stderr, "child: want ID tier seed batch nbatch out")
		os.Exit(2)
	}
	seed, _ := strconv.ParseInt(args[2], 10, 64)
	batch, _ := strconv.Atoi(args[3])
	nbatch, _ := strconv.Atoi(args[4])
	c := &Child{ID: args[0], Tier: args[1], Seed: seed, Batch: batch, NBatch: nbatch, Out: args[5], Only: os.Getenv("VERIF_ONLY"), maxViol: 6}
	c.nt = map[uint64]struct{}{}
	c.res = BatchResult{Property: c.ID, Batch: batch, Features: map[string]int64{}, ViolCount: map[string]int64{}}
	j, err := os.OpenFile(c.Out+".journal", os.O_CREATE|os.O_WRONLY|os.O_TRUNC, 0o644)
	if err == nil {
		c.journal = j
	}
	debug.SetMaxStack(256 << 20)
	f(c)
	c.Flush(true)
	if c.journal != nil {
		c.journal.Close()
	}
}
