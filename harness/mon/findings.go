package mon

import (
	"encoding/json"
	"os"
)

// Finding is one entry of /verif/known_findings.json. The file is committed
// and only ever read at run time.
type Finding struct {
	Property string `json:"property"`
	// ID is the signature class assigned by the property's classifier.
	ID     string `json:"id"`
	Status string `json:"status"` // "open" or "fixed"
	Site   string `json:"site,omitempty"`
	// What names the specific input / call site / history that fails.
	What string `json:"what"`
	// Signature is the human-readable form of the predicate implemented by the classifier.
	Signature string      `json:"signature,omitempty"`
	Witness   interface{} `json:"witness,omitempty"`
	// Line is the "fixed: property=<id> <commit> <what failed>" record for repaired defects.
	Line   string `json:"line,omitempty"`
	Commit string `json:"commit,omitempty"`
}

// Findings is the parsed file.
type Findings struct {
	Entries []Finding `json:"findings"`
}

// LoadFindings reads the file; a missing file means no findings.
func LoadFindings(path string) *Findings {
	f := &Findings{}
	b, err := os.ReadFile(path)
	if err != nil {
		return f
	}
	_ = json.Unmarshal(b, f)
	return f
}

// Open reports whether (property, class) is listed as an open finding. Fixed
// entries suppress nothing.
func (f *Findings) Open(property, class string) bool {
	for _, e := range f.Entries {
		if e.Property == property && e.ID == class && e.Status == "open" {
			return true
		}
	}
	return false
}

// What returns the description of an entry.
func (f *Findings) What(property, class string) string {
	for _, e := range f.Entries {
		if e.Property == property && e.ID == class {
			return e.What
		}
	}
	return class
}
