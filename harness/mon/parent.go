package mon

import (
	"bufio"
	"encoding/json"
	"fmt"
	"os"
	"os/exec"
	"path/filepath"
	"regexp"
	"sort"
	"strconv"
	"strings"
	"sync"
	"time"
)

// Spec describes one property's check to the parent runner.
type Spec struct {
	ID          string
	Rule        string
	Assumptions []string
	// Batches returns how many child batches the tier runs.
	Batches func(tier string) int
	// Floor is the minimum number of distinct non-trivial cases below which a
	// run is reported as inconclusive-empty instead of "held".
	Floor func(tier string) int
	// TimeoutSec is the per-child wall-clock watchdog (never a verdict by itself).
	TimeoutSec func(tier string) int
	// Prepare builds the child binary (generated-program properties). When
	// nil the running executable is its own child.
	Prepare func(p *Parent) (binFor func(batch int) string, err error)
	// RerunSec is the watchdog of the isolated re-runs that confirm a hang (default 60).
	RerunSec int
	// Race marks a race-detector build: GORACE logs are collected and every
	// report block is a violation.
	Race bool
	// Child is the batch body (used by the self-exec child).
	Child ChildFunc
	// Finish lets a property add parent-side observations to the evidence.
	Finish func(p *Parent, m *Merged)
}

// Parent is the parent-side run context.
type Parent struct {
	Spec    *Spec
	Tier    string
	Seed    int64
	Scratch string
	Root    string // /verif
	Replay  *ReplayFile
	NBatch  int
}

// Merged is the union of all batch results.
type Merged struct {
	Evaluations  int64
	Nontrivial   map[uint64]struct{}
	NontrivialN  int64
	Features     map[string]int64
	Samples      []interface{}
	Violations   []Violation
	ViolCount    map[string]int64
	Unspecified  int64
	Inconclusive int64
	Notes        map[string]string
	Exhaustive   bool
	BatchesDone  int
	Extra        map[string]interface{}
}

// ReplayFile is written for every reported violation.
type ReplayFile struct {
	Property string      `json:"property"`
	Tier     string      `json:"tier"`
	Seed     int64       `json:"seed"`
	Batch    int         `json:"batch"`
	NBatch   int         `json:"nbatch"`
	CaseKey  string      `json:"case_key"`
	Class    string      `json:"class"`
	What     string      `json:"what"`
	Detail   interface{} `json:"detail,omitempty"`
}

func verifRoot() string {
	if r := os.Getenv("VERIF_ROOT"); r != "" {
		return r
	}
	return "/verif"
}

var raceHdr = regexp.MustCompile(`WARNING: DATA RACE`)

// RunParent runs a whole check and returns the process exit code.
func RunParent(spec *Spec, tier string, seed int64, replayPath string) int {
	start := time.Now()
	p := &Parent{Spec: spec, Tier: tier, Seed: seed, Root: verifRoot()}
	if replayPath != "" {
		b, err := os.ReadFile(replayPath)
		if err != nil {
			fmt.Println("cannot read replay file:", err)
			return 2
		}
		rf := &ReplayFile{}
		if err := json.Unmarshal(b, rf); err != nil {
			fmt.Println("bad replay file:", err)
			return 2
		}
		p.Replay = rf
		p.Tier, p.Seed = rf.Tier, rf.Seed
		tier, seed = rf.Tier, rf.Seed
	}
	scratch, err := os.MkdirTemp("", "verif-"+spec.ID+"-")
	if err != nil {
		fmt.Println("mktemp:", err)
		return 2
	}
	p.Scratch = scratch
	defer os.RemoveAll(scratch)

	p.NBatch = spec.Batches(tier)
	if p.Replay != nil {
		p.NBatch = p.Replay.NBatch
	}
	self, err := os.Executable()
	if err != nil {
		fmt.Println("executable:", err)
		return 2
	}
	binFor := func(int) string { return self }
	if spec.Prepare != nil {
		binFor, err = spec.Prepare(p)
		if err != nil {
			// A build failure of generated code against the current tree is
			// reported by the property itself through PrepareError.
			if pe, ok := err.(*PrepareViolation); ok {
				return p.finish(start, &Merged{Nontrivial: map[uint64]struct{}{}, Features: map[string]int64{}, ViolCount: map[string]int64{"unclassified": 1},
					Violations: []Violation{{Class: pe.Class, CaseKey: "prepare", What: pe.What, Detail: pe.Detail}}})
			}
			fmt.Println("prepare failed:", err)
			return 2
		}
	}

	batches := []int{}
	for b := 0; b < p.NBatch; b++ {
		if p.Replay == nil || p.Replay.Batch == b {
			batches = append(batches, b)
		}
	}
	only := ""
	if p.Replay != nil {
		only = p.Replay.CaseKey
	}
	timeout := 600
	if spec.TimeoutSec != nil {
		timeout = spec.TimeoutSec(tier)
	}
	par := 16
	if s := os.Getenv("VERIF_PAR"); s != "" {
		if n, err := strconv.Atoi(s); err == nil && n > 0 {
			par = n
		}
	}
	sem := make(chan struct{}, par)
	var wg sync.WaitGroup
	results := make([]*BatchResult, p.NBatch)
	extra := make([][]Violation, p.NBatch)
	incon := make([]int64, p.NBatch)
	for _, b := range batches {
		b := b
		wg.Add(1)
		sem <- struct{}{}
		go func() {
			defer wg.Done()
			defer func() { <-sem }()
			results[b], extra[b], incon[b] = p.runBatch(binFor(b), b, only, timeout)
		}()
	}
	wg.Wait()

	m := &Merged{Nontrivial: map[uint64]struct{}{}, Features: map[string]int64{}, ViolCount: map[string]int64{}, Notes: map[string]string{}, Extra: map[string]interface{}{}}
	m.Exhaustive = true
	for _, b := range batches {
		r := results[b]
		for _, v := range extra[b] {
			m.Violations = append(m.Violations, v)
			ck := v.Class
			if ck == "" {
				ck = "unclassified"
			}
			m.ViolCount[ck]++
		}
		m.Inconclusive += incon[b]
		if r == nil {
			m.Exhaustive = false
			continue
		}
		if r.Done {
			m.BatchesDone++
		}
		m.Evaluations += r.Evaluations
		m.NontrivialN += r.NontrivialN
		for _, h := range r.Nontrivial {
			m.Nontrivial[h] = struct{}{}
		}
		for k, v := range r.Features {
			if strings.HasPrefix(k, "max:") {
				if v > m.Features[k] {
					m.Features[k] = v
				}
			} else {
				m.Features[k] += v
			}
		}
		if len(m.Samples) < 6 {
			for _, s := range r.Samples {
				if len(m.Samples) < 6 {
					m.Samples = append(m.Samples, s)
				}
			}
		}
		m.Violations = append(m.Violations, r.Violations...)
		for k, v := range r.ViolCount {
			m.ViolCount[k] += v
		}
		m.Unspecified += r.Unspecified
		m.Inconclusive += r.Inconclusive
		for k, v := range r.Notes {
			m.Notes[k] = v
		}
		if !r.Exhaustive {
			m.Exhaustive = false
		}
	}
	if spec.Finish != nil {
		spec.Finish(p, m)
	}
	return p.finish(start, m)
}

// PrepareViolation is returned by a Prepare step when building code emitted
// from the current tree fails in a way that is itself a refutation.
type PrepareViolation struct {
	Class  string
	What   string
	Detail interface{}
}

func (e *PrepareViolation) Error() string { return e.What }

func (p *Parent) runBatch(bin string, b int, only string, timeout int) (*BatchResult, []Violation, int64) {
	out := filepath.Join(p.Scratch, fmt.Sprintf("b%03d.json", b))
	run := func(only string, out string, timeout int) (exit int, timedOut bool) {
		args := []string{"-s", "QUIT", "-k", "10", strconv.Itoa(timeout), bin, "child", p.Spec.ID, p.Tier, strconv.FormatInt(p.Seed, 10), strconv.Itoa(b), strconv.Itoa(p.NBatch), out}
		cmd := exec.Command("timeout", args...)
		logf, _ := os.Create(out + ".log")
		cmd.Stdout, cmd.Stderr = logf, logf
		cmd.Env = append(os.Environ(), "VERIF_ONLY="+only, "VERIF_SCRATCH="+p.Scratch)
		if p.Spec.Race {
			cmd.Env = append(cmd.Env, "GORACE=halt_on_error=0 log_path="+out+".race")
		}
		err := cmd.Run()
		logf.Close()
		if err == nil {
			return 0, false
		}
		if ee, ok := err.(*exec.ExitError); ok {
			code := ee.ExitCode()
			return code, code == 124 || code == 137
		}
		return -1, false
	}
	exit, timedOut := run(only, out, timeout)
	res := readResult(out)
	var viols []Violation
	var incon int64
	if p.Spec.Race {
		viols = append(viols, p.raceReports(out, b)...)
	}
	if res != nil && res.Done && exit == 0 {
		return res, viols, incon
	}
	// The child died or was stopped by the watchdog: find the case it was in.
	key, desc := lastOpenCase(out + ".journal")
	tail := tailFile(out+".log", 60)
	if key == "" {
		// Not attributable to a case.
		if timedOut {
			incon++
			fmt.Printf("INCONCLUSIVE batch %d stopped by the wall-clock watchdog outside any case\n", b)
		} else {
			viols = append(viols, Violation{Class: "", CaseKey: "", Batch: b, What: fmt.Sprintf("child exited with status %d outside any journalled case", exit), Detail: map[string]interface{}{"log_tail": tail}})
		}
		return res, viols, incon
	}
	// Re-run that single case alone to confirm.
	died, hung := 0, 0
	tries := 2
	rerunSec := 60
	if p.Spec.RerunSec > 0 {
		rerunSec = p.Spec.RerunSec
	}
	var tail2 string
	for i := 0; i < tries; i++ {
		o2 := filepath.Join(p.Scratch, fmt.Sprintf("b%03d-rerun%d.json", b, i))
		e2, to2 := run(key, o2, rerunSec)
		r2 := readResult(o2)
		if r2 != nil && r2.Done && e2 == 0 {
			// Completed alone: keep anything it reported.
			for _, v := range r2.Violations {
				viols = append(viols, v)
			}
			continue
		}
		tail2 = tailFile(o2+".log", 60)
		if to2 {
			hung++
		} else {
			died++
		}
	}
	switch {
	case died == tries:
		viols = append(viols, Violation{Class: classifyDeath(tail2), CaseKey: key, Batch: b, What: "process-fatal failure (reproduced in isolation) in case " + desc, Detail: map[string]interface{}{"case": desc, "log_tail": tail2}})
	case hung == tries:
		viols = append(viols, Violation{Class: "", CaseKey: key, Batch: b, What: fmt.Sprintf("case does not terminate (isolated re-runs exceeded %d s twice): %s", rerunSec, desc), Detail: map[string]interface{}{"case": desc, "log_tail": tail2}})
	default:
		incon++
		fmt.Printf("INCONCLUSIVE batch %d: child failed in case %s but the case completed in isolation\n", b, key)
	}
	// The remainder of the batch was not explored; say so.
	fmt.Printf("NOTE batch %d ended early at case %s (exit %d, watchdog=%v)\n", b, key, exit, timedOut)
	return res, viols, incon
}

func classifyDeath(tail string) string {
	return ""
}

func (p *Parent) raceReports(out string, b int) []Violation {
	var viols []Violation
	files, _ := filepath.Glob(out + ".race*")
	files = append(files, out+".log")
	seen := map[string]bool{}
	for _, f := range files {
		data, err := os.ReadFile(f)
		if err != nil {
			continue
		}
		blocks := strings.Split(string(data), "==================")
		for _, blk := range blocks {
			if !raceHdr.MatchString(blk) {
				continue
			}
			sig := raceSignature(blk)
			if seen[sig] {
				continue
			}
			seen[sig] = true
			if len(blk) > 6000 {
				blk = blk[:6000]
			}
			viols = append(viols, Violation{Class: "", CaseKey: "race", Batch: b, What: "data race reported by the Go race detector: " + sig, Detail: map[string]interface{}{"report": blk}})
		}
	}
	return viols
}

var frameRe = regexp.MustCompile(`(?m)^\s+(\S+)\(`)

// raceSignature de-duplicates reports by the participle functions involved,
// line numbers stripped.
func raceSignature(blk string) string {
	fr := frameRe.FindAllStringSubmatch(blk, -1)
	var keep []string
	for _, f := range fr {
		if strings.Contains(f[1], "participle") {
			keep = append(keep, f[1])
		}
		if len(keep) >= 4 {
			break
		}
	}
	return strings.Join(keep, " / ")
}

func readResult(path string) *BatchResult {
	b, err := os.ReadFile(path)
	if err != nil {
		return nil
	}
	r := &BatchResult{}
	if json.Unmarshal(b, r) != nil {
		return nil
	}
	return r
}

func lastOpenCase(journal string) (key, desc string) {
	f, err := os.Open(journal)
	if err != nil {
		return "", ""
	}
	defer f.Close()
	sc := bufio.NewScanner(f)
	sc.Buffer(make([]byte, 1<<20), 64<<20)
	open := ""
	d := ""
	for sc.Scan() {
		line := sc.Text()
		if strings.HasPrefix(line, "BEGIN ") {
			rest := line[6:]
			i := strings.IndexByte(rest, ' ')
			if i < 0 {
				open, d = rest, ""
			} else {
				open = rest[:i]
				if u, err := strconv.Unquote(rest[i+1:]); err == nil {
					d = u
				} else {
					d = rest[i+1:]
				}
			}
		} else if strings.HasPrefix(line, "END ") {
			if line[4:] == open {
				open, d = "", ""
			}
		}
	}
	return open, d
}

func tailFile(path string, n int) string {
	b, err := os.ReadFile(path)
	if err != nil {
		return ""
	}
	lines := strings.Split(string(b), "\n")
	// Keep the head of a Go fatal error (it names the cause) and the first frames.
	if len(lines) > n {
		lines = lines[:n]
	}
	return strings.Join(lines, "\n")
}

func (p *Parent) finish(start time.Time, m *Merged) int {
	kf := LoadFindings(filepath.Join(p.Root, "known_findings.json"))
	id := p.Spec.ID
	// Partition violations.
	knownSeen := map[string]int64{}
	var unlisted []Violation
	for _, v := range m.Violations {
		if v.Class != "" && kf.Open(id, v.Class) {
			continue
		}
		unlisted = append(unlisted, v)
	}
	var unlistedCount int64
	for cls, n := range m.ViolCount {
		if cls != "unclassified" && kf.Open(id, cls) {
			knownSeen[cls] += n
		} else {
			unlistedCount += n
		}
	}
	if int64(len(unlisted)) > unlistedCount {
		unlistedCount = int64(len(unlisted))
	}
	// Replay files for unlisted violations (bounded number).
	sort.SliceStable(unlisted, func(i, j int) bool { return unlisted[i].Class < unlisted[j].Class })
	exit := 0
	if p.Replay == nil {
		os.MkdirAll(filepath.Join(p.Root, "replays"), 0o755)
	}
	for i, v := range unlisted {
		if i >= 8 {
			break
		}
		rf := ReplayFile{Property: id, Tier: p.Tier, Seed: p.Seed, Batch: v.Batch, NBatch: p.NBatch, CaseKey: v.CaseKey, Class: v.Class, What: v.What, Detail: v.Detail}
		path := filepath.Join(p.Root, "replays", fmt.Sprintf("%s-%d-%d.json", id, p.Seed, i))
		if p.Replay != nil {
			path = filepath.Join(p.Root, "replays", fmt.Sprintf("%s-%d-replayed-%d.json", id, p.Seed, i))
		}
		b, _ := json.MarshalIndent(&rf, "", " ")
		_ = os.WriteFile(path, b, 0o644)
		fmt.Printf("VIOLATION property=%s replay=%s\n", id, path)
		what := v.What
		if len(what) > 600 {
			what = what[:600] + "..."
		}
		fmt.Printf("  what: %s\n", what)
		exit = 1
	}
	if len(m.ViolCount) > 0 {
		fmt.Printf("  violation classes: %v\n", m.ViolCount)
	}
	if unlistedCount > int64(len(unlisted)) || len(unlisted) > 8 {
		fmt.Printf("  (%d violating observations in total)\n", unlistedCount)
	}
	var kfNames []string
	for cls := range knownSeen {
		kfNames = append(kfNames, cls)
	}
	sort.Strings(kfNames)
	for _, cls := range kfNames {
		fmt.Printf("KNOWN-FINDING: property=%s %s (%s; observed %d times in this run)\n", id, kf.What(id, cls), cls, knownSeen[cls])
	}
	if m.Inconclusive > 0 {
		fmt.Printf("INCONCLUSIVE %d\n", m.Inconclusive)
	}
	if m.Unspecified > 0 {
		fmt.Printf("UNSPECIFIED %d\n", m.Unspecified)
	}
	wall := time.Since(start).Seconds()
	distinct := len(m.Nontrivial) + int(m.NontrivialN)
	fmt.Printf("%s %s seed=%d: evaluations=%d distinct_nontrivial=%d batches=%d/%d violations=%d known=%d wall=%.1fs\n",
		id, p.Tier, p.Seed, m.Evaluations, distinct, m.BatchesDone, p.NBatch, unlistedCount, sumMap(knownSeen), wall)

	if p.Replay != nil {
		if exit == 0 {
			fmt.Println("replay: the recorded case no longer violates the property")
		}
		return exit
	}
	// Evidence.
	cov := map[string]interface{}{
		"evaluations":         m.Evaluations,
		"distinct_nontrivial": distinct,
		"rule":                p.Spec.Rule,
		"samples":             m.Samples,
		"observed":            m.Features,
		"unspecified":         m.Unspecified,
		"inconclusive":        m.Inconclusive,
		"batches_completed":   m.BatchesDone,
		"batches":             p.NBatch,
		"known_findings_seen": knownSeen,
	}
	if m.Exhaustive && m.BatchesDone == p.NBatch {
		cov["exhaustive"] = true
	}
	for k, v := range m.Extra {
		cov[k] = v
	}
	if len(m.Notes) > 0 {
		cov["notes"] = m.Notes
	}
	if len(m.Samples) == 0 {
		cov["samples"] = []interface{}{"(no sample recorded)"}
	}
	ev := map[string]interface{}{
		"property_id": id,
		"tier":        p.Tier,
		"seed":        p.Seed,
		"level":       "exploration",
		"coverage":    cov,
		"assumptions": p.Spec.Assumptions,
		"wall_s":      wall,
		"violations":  unlistedCount,
	}
	b, _ := json.MarshalIndent(ev, "", " ")
	os.MkdirAll(filepath.Join(p.Root, "evidence"), 0o755)
	if os.Getenv("VERIF_NOEVIDENCE") == "" {
		_ = os.WriteFile(filepath.Join(p.Root, "evidence", id+".json"), b, 0o644)
	}

	if exit == 0 {
		floor := 2
		if p.Spec.Floor != nil {
			floor = p.Spec.Floor(p.Tier)
		}
		if distinct < floor || m.BatchesDone == 0 {
			fmt.Printf("INCONCLUSIVE-EMPTY property=%s: only %d distinct non-trivial cases observed (floor %d), %d/%d batches completed\n", id, distinct, floor, m.BatchesDone, p.NBatch)
			return 3
		}
	}
	return exit
}

func sumMap(m map[string]int64) int64 {
	var n int64
	for _, v := range m {
		n += v
	}
	return n
}

// WantBatch reports whether a batch will be run (all of them, or only the
// recorded one when replaying).
func (p *Parent) WantBatch(b int) bool { return p.Replay == nil || p.Replay.Batch == b }
