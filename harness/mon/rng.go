// Package mon holds the shared runtime-monitoring plumbing: deterministic PRNG,
// journals, batch results, the child runner, evidence and known-findings files.
package mon

import (
	"fmt"
	"hash/fnv"
)

// RNG is a small deterministic generator (splitmix64). Every random choice in
// the harness comes from an RNG keyed by (seed, property, batch, case, purpose),
// so a case can be regenerated from its key alone.
type RNG struct{ s uint64 }

// NewRNG derives a generator from a seed and any number of key parts.
func NewRNG(seed int64, keys ...interface{}) *RNG {
	h := fnv.New64a()
	fmt.Fprintf(h, "%d", seed)
	for _, k := range keys {
		fmt.Fprintf(h, "|%v", k)
	}
	r := &RNG{s: h.Sum64()}
	r.next()
	return r
}

func (r *RNG) next() uint64 {
	r.s += 0x9e3779b97f4a7c15
	z := r.s
	z = (z ^ (z >> 30)) * 0xbf58476d1ce4e5b9
	z = (z ^ (z >> 27)) * 0x94d049bb133111eb
	return z ^ (z >> 31)
}

// Uint64 returns the next raw value.
func (r *RNG) Uint64() uint64 { return r.next() }

// Intn returns a value in [0,n). n<=0 yields 0.
func (r *RNG) Intn(n int) int {
	if n <= 0 {
		return 0
	}
	return int(r.next() % uint64(n))
}

// Range returns a value in [lo,hi].
func (r *RNG) Range(lo, hi int) int {
	if hi <= lo {
		return lo
	}
	return lo + r.Intn(hi-lo+1)
}

// Bool returns true with probability 1/2.
func (r *RNG) Bool() bool { return r.next()&1 == 1 }

// Chance returns true with probability num/den.
func (r *RNG) Chance(num, den int) bool { return r.Intn(den) < num }

// Pick returns one of the strings.
func (r *RNG) Pick(xs ...string) string { return xs[r.Intn(len(xs))] }

// Weighted returns an index chosen with the given weights.
func (r *RNG) Weighted(w ...int) int {
	t := 0
	for _, x := range w {
		t += x
	}
	if t <= 0 {
		return 0
	}
	n := r.Intn(t)
	for i, x := range w {
		if n < x {
			return i
		}
		n -= x
	}
	return len(w) - 1
}

// Perm returns a permutation of [0,n).
func (r *RNG) Perm(n int) []int {
	p := make([]int, n)
	for i := range p {
		p[i] = i
	}
	for i := n - 1; i > 0; i-- {
		j := r.Intn(i + 1)
		p[i], p[j] = p[j], p[i]
	}
	return p
}

// Fork derives an independent generator.
func (r *RNG) Fork(keys ...interface{}) *RNG {
	return NewRNG(int64(r.next()), keys...)
}

// Hash64 hashes a string (used for distinct-case counting).
func Hash64(s string) uint64 {
	h := fnv.New64a()
	h.Write([]byte(s))
	return h.Sum64()
}
