package props

import (
	"bytes"
	"errors"
	"fmt"
	"io"
	"strings"
	"sync"
	"testing/iotest"

	"github.com/alecthomas/participle/v2"
	"github.com/alecthomas/participle/v2/lexer"

	"verifharness/gram"
	"verifharness/lexgen"
	"verifharness/mon"
)

// C15: all entry points agree.

// recorder collects the token streams handed out by the lexers a wrapped
// definition creates.
type recorder struct {
	mu      sync.Mutex
	streams [][]lexer.Token
	via     []string
}

func (r *recorder) reset() {
	r.mu.Lock()
	r.streams, r.via = nil, nil
	r.mu.Unlock()
}

type recLexer struct {
	inner lexer.Lexer
	rec   *recorder
	idx   int
}

func (l *recLexer) Next() (lexer.Token, error) {
	t, err := l.inner.Next()
	if err == nil {
		l.rec.mu.Lock()
		l.rec.streams[l.idx] = append(l.rec.streams[l.idx], t)
		l.rec.mu.Unlock()
	}
	return t, err
}

func (r *recorder) wrap(lx lexer.Lexer, via string) lexer.Lexer {
	r.mu.Lock()
	defer r.mu.Unlock()
	r.streams = append(r.streams, nil)
	r.via = append(r.via, via)
	return &recLexer{inner: lx, rec: r, idx: len(r.streams) - 1}
}

// recDef forwards Lex only; recDefS also LexString; recDefSB also LexBytes —
// each forwards to the wrapped definition's own method so fast paths stay visible.
type recDef struct {
	inner lexer.Definition
	rec   *recorder
}

func (d *recDef) Symbols() map[string]lexer.TokenType { return d.inner.Symbols() }
func (d *recDef) Lex(f string, r io.Reader) (lexer.Lexer, error) {
	lx, err := d.inner.Lex(f, r)
	if err != nil {
		return nil, err
	}
	return d.rec.wrap(lx, "Lex"), nil
}

type recDefS struct{ recDef }

func (d *recDefS) LexString(f, s string) (lexer.Lexer, error) {
	lx, err := d.inner.(lexer.StringDefinition).LexString(f, s)
	if err != nil {
		return nil, err
	}
	return d.rec.wrap(lx, "LexString"), nil
}

type recDefSB struct{ recDefS }

func (d *recDefSB) LexBytes(f string, b []byte) (lexer.Lexer, error) {
	lx, err := d.inner.(lexer.BytesDefinition).LexBytes(f, b)
	if err != nil {
		return nil, err
	}
	return d.rec.wrap(lx, "LexBytes"), nil
}

// fullDef is a user-written Definition implementing the optional
// StringDefinition and BytesDefinition interfaces on top of any definition.
type fullDef struct{ inner lexer.Definition }

func (d *fullDef) Symbols() map[string]lexer.TokenType            { return d.inner.Symbols() }
func (d *fullDef) Lex(f string, r io.Reader) (lexer.Lexer, error) { return d.inner.Lex(f, r) }
func (d *fullDef) LexString(f, s string) (lexer.Lexer, error) {
	if sd, ok := d.inner.(lexer.StringDefinition); ok {
		return sd.LexString(f, s)
	}
	return d.inner.Lex(f, strings.NewReader(s))
}
func (d *fullDef) LexBytes(f string, b []byte) (lexer.Lexer, error) {
	if bd, ok := d.inner.(lexer.BytesDefinition); ok {
		return bd.LexBytes(f, b)
	}
	return d.inner.Lex(f, bytes.NewReader(b))
}

func wrapDef(inner lexer.Definition, rec *recorder) lexer.Definition {
	_, s := inner.(lexer.StringDefinition)
	_, b := inner.(lexer.BytesDefinition)
	switch {
	case s && b:
		return &recDefSB{recDefS{recDef{inner, rec}}}
	case s:
		return &recDefS{recDef{inner, rec}}
	}
	return &recDef{inner, rec}
}

// failingReader hands out its data and then fails (not with io.EOF).
type failingReader struct {
	data []byte
	off  int
}

func (f *failingReader) Read(p []byte) (int, error) {
	if f.off >= len(f.data) {
		return 0, errors.New("read failed")
	}
	n := copy(p, f.data[f.off:])
	f.off += n
	return n, nil
}

type namedReader struct {
	io.Reader
	name string
}

func (n namedReader) Name() string { return n.name }

func c15Opts(r *mon.RNG, i int) *gram.GenOpts {
	prof := []int{gram.ProfStateful, gram.ProfDefault, gram.ProfLower, gram.ProfScanCfg}[i%4]
	return &gram.GenOpts{Profile: prof, MaxProds: 4, Budget: 10 + r.Intn(12), Depth: 2 + r.Intn(2), TokKinds: i%2 == 0, Unions: true,
		SharePrefix: 5, CaptureBias: 5, SubBias: 3, AllowBang: true, ForcePos: i%2 == 1,
		// every second grammar over the Elide() profile may name the elided types (references and bare literals)
		NamesElided: i%8 == 0}
}

func sameStream(a, b []lexer.Token) string {
	if len(a) != len(b) {
		return fmt.Sprintf("%d tokens vs %d", len(a), len(b))
	}
	for i := range a {
		if a[i] != b[i] {
			return fmt.Sprintf("token #%d: %#v vs %#v", i, a[i], b[i])
		}
	}
	return ""
}

// c15PRoot is a root grammar implemented by user code (Parseable): it
// consumes "(" Ident* ")" and leaves the rest.
type c15PRoot struct {
	Items []string
}

func (p *c15PRoot) Parse(lex *lexer.PeekingLexer) error {
	if lex.Peek().Value != "(" {
		return participle.NextMatch
	}
	lex.Next()
	for !lex.Peek().EOF() && lex.Peek().Value != ")" {
		p.Items = append(p.Items, lex.Next().Value)
	}
	if lex.Peek().EOF() {
		return fmt.Errorf("unterminated list")
	}
	lex.Next()
	return nil
}

// c15ParseableRoot checks the caller's lexer position after ParseFromLexer
// with trailing input allowed for a root that implements Parseable.
func c15ParseableRoot(c *mon.Child) {
	p, err := participle.Build[c15PRoot](gram.LexerOptions(gram.ProfStateful)...)
	if err != nil {
		c.Violation("", "proot", "Parseable root grammar does not build: "+err.Error(), nil)
		return
	}
	sym := p.Lexer().Symbols()
	el := []lexer.TokenType{sym["WS"], sym["Comment"]}
	r := c.RNG("proot")
	for i := 0; i < c.N(300, 2000); i++ {
		key := fmt.Sprintf("proot%d", i)
		if !c.Want(key) {
			continue
		}
		n := r.Intn(5)
		var items []string
		for j := 0; j < n; j++ {
			items = append(items, r.Pick("a", "b", "1", "select"))
		}
		var rest []string
		for j := r.Intn(4); j > 0; j-- {
			rest = append(rest, r.Pick("x", "(", "2", ")"))
		}
		toks := append(append([]string{"("}, items...), ")")
		text := gram.Render(gram.ProfStateful, append(toks, rest...), 2+i%5, r.Fork("render", i))
		c.Begin(key, fmt.Sprintf("Parseable root <- %q", text))
		c.Eval(1)
		L, lerr := p.Lex("", strings.NewReader(text))
		if lerr != nil {
			c.End(key)
			continue
		}
		pl, _ := lexer.Upgrade(&sliceLex{toks: L}, el...)
		var v *c15PRoot
		var perr error
		pn, pv, _ := mon.Guard(func() { v, perr = p.ParseFromLexer(pl, participle.AllowTrailing(true)) })
		switch {
		case pn:
			c.Violation("", key, "ParseFromLexer on a Parseable root panicked: "+pv, nil)
		case perr != nil:
			c.Violation("", key, fmt.Sprintf("Parseable root failed on valid input %q: %v", text, perr), nil)
		default:
			if strings.Join(v.Items, " ") != strings.Join(items, " ") {
				c.Violation("", key, fmt.Sprintf("Parseable root captured %v, expected %v", v.Items, items), nil)
			}
			want := "<EOF>"
			if len(rest) > 0 {
				want = rest[0]
			}
			if got := pl.Peek().String(); got != want {
				c.Violation("", key, fmt.Sprintf("after ParseFromLexer(AllowTrailing) on a Parseable root the caller's lexer peeks %q, the first unconsumed token is %q | input %q", got, want, text), map[string]interface{}{"input": text})
			}
			// the other entry points agree
			v2, err2 := p.ParseString("", text, participle.AllowTrailing(true))
			if err2 != nil || strings.Join(v2.Items, " ") != strings.Join(items, " ") {
				c.Violation("", key, fmt.Sprintf("ParseString on a Parseable root disagrees with ParseFromLexer: %v %v", v2, err2), nil)
			}
		}
		c.Feature("parseable_root_lexer_position_checked")
		if len(rest) > 0 {
			c.Nontrivial("proot:" + text)
		}
		c.End(key)
	}
}

func c15Child(c *mon.Child) {
	if c.Batch == 0 {
		c15ParseableRoot(c)
	}
	nInputs := c.N(60, 150)
	for gi, h := range gram.Registry {
		g, err := gram.ParseGrammar(h.IR)
		if err != nil {
			continue
		}
		mapped := gi%5 == 4
		rec := &recorder{}
		raw := gram.ProfileDef(g.Profile)
		if gi%2 == 1 {
			// a user definition that offers all three entry points itself
			raw = &fullDef{raw}
			c.Feature("grammars_over_a_definition_with_LexString_and_LexBytes")
		}
		opts := []participle.Option{participle.Lexer(wrapDef(raw, rec)), participle.UseLookahead([]int{1, 2, participle.MaxLookahead}[gi%3])}
		elided := gram.ElidedNames(g.Profile)
		if len(elided) > 0 {
			opts = append(opts, participle.Elide(elided...))
		}
		if mapped {
			opts = append(opts, participle.Upper("Ident"), participle.Map(func(t lexer.Token) (lexer.Token, error) {
				if t.Value == "2" {
					t.Value = "20"
				}
				return t, nil
			}, "Int"))
		}
		var b gram.Built
		var berr error
		if p, _, _ := mon.Guard(func() { b, berr = h.Build(opts...) }); p || berr != nil {
			c.Feature("grammars_not_built")
			continue
		}
		if mapped {
			c.Feature("grammars_with_token_mappers")
		}
		c.Feature("grammars_profile_" + fmt.Sprint(g.Profile))
		sym := b.Lexer().Symbols()
		var elTypes []lexer.TokenType
		for _, n := range elided {
			elTypes = append(elTypes, sym[n])
		}
		gp := &gparsers{g: g, h: h, sym: sym, elided: elided}
		r := c.RNG("inputs", h.ID)
		smp := gram.NewSampler(g, r)
		inputs := smp.Inputs(nInputs)
		gdesc := trunc(g.String(), 700)
		for ii, toks := range inputs {
			key := fmt.Sprintf("%s.i%d", h.ID, ii)
			if !c.Want(key) {
				continue
			}
			text := gram.Render(g.Profile, toks, ii%6, r.Fork("render", ii))
			if ii%9 == 8 {
				text = lexgen.Soup(r, r.Range(1, 12)) // arbitrary bytes: lexing errors must agree too
			}
			if ii%11 == 10 {
				// a byte order mark in front: whatever a lexer makes of it, every entry point has to make the same
				text = "\xef\xbb\xbf" + text
				c.Feature("inputs_starting_with_a_byte_order_mark")
			}
			fname := []string{"in.txt", "", "d/é.x"}[ii%3]
			c.Begin(key, fmt.Sprintf("%s <- %q", trunc(gdesc, 300), text))
			c.Eval(1)
			report := func(what string) {
				c.Violation("", key, fmt.Sprintf("%s | mapped=%v | grammar: %s | input: %q file=%q", what, mapped, gdesc, text, fname),
					map[string]interface{}{"grammar": g, "input": text, "filename": fname, "difference": what})
			}
			// token stream via Parser.Lex
			var L []lexer.Token
			var lexErr error
			if p, pv, _ := mon.Guard(func() { L, lexErr = b.Lex(fname, strings.NewReader(text)) }); p {
				report("Parser.Lex panicked: " + pv)
				c.End(key)
				continue
			}
			if lexErr == nil && L != nil {
				// cost guard (also for mapped parsers: the reference runs on Parser.Lex's mapped tokens)
				if !affordableK(c, gp, L, []int{[]int{1, 2, participle.MaxLookahead}[gi%3]}) {
					c.End(key)
					continue
				}
			}
			trailing := ii%4 == 2
			po := []participle.ParseOption{participle.AllowTrailing(trailing)}
			type ep struct {
				name string
				f    func() (interface{}, error)
			}
			var traceBuf bytes.Buffer
			eps := []ep{
				{"ParseString", func() (interface{}, error) { return b.ParseString(fname, text, po...) }},
				{"ParseBytes", func() (interface{}, error) { return b.ParseBytes(fname, []byte(text), po...) }},
				{"Parse(reader)", func() (interface{}, error) { return b.Parse(fname, strings.NewReader(text), po...) }},
				{"ParseFromLexer(Upgrade(Lexer().Lex))", func() (interface{}, error) {
					lx, err := b.Lexer().Lex(fname, strings.NewReader(text))
					if err != nil {
						return nil, err
					}
					pl, err := lexer.Upgrade(lx, elTypes...)
					if err != nil {
						return nil, err
					}
					return b.ParseFromLexer(pl, po...)
				}},
				{"ParseString+Trace", func() (interface{}, error) {
					return b.ParseString(fname, text, append([]participle.ParseOption{participle.Trace(&traceBuf)}, po...)...)
				}},
			}
			// readers with awkward but legal behaviour: data together with io.EOF, one byte at a time
			eps = append(eps,
				ep{"Parse(DataErrReader)", func() (interface{}, error) {
					return b.Parse(fname, iotest.DataErrReader(strings.NewReader(text)), po...)
				}},
				ep{"Parse(OneByteReader)", func() (interface{}, error) {
					return b.Parse(fname, iotest.OneByteReader(strings.NewReader(text)), po...)
				}})
			if fname != "" {
				eps = append(eps, ep{"Parse(\"\", named reader)", func() (interface{}, error) {
					return b.Parse("", namedReader{strings.NewReader(text), fname}, po...)
				}})
			}
			if fname != "" {
				// an explicit filename wins over the reader's own name
				eps = append(eps, ep{"Parse(filename, reader with another name)", func() (interface{}, error) {
					return b.Parse(fname, namedReader{strings.NewReader(text), "other-name.txt"}, po...)
				}})
			}
			if ii%5 == 2 && len(text) > 1 {
				// an earlier call on the same parser whose reader failed part-way must leave nothing behind
				mon.Guard(func() { _, _ = b.Parse(fname, &failingReader{data: []byte(text[:len(text)/2+1])}) })
				c.Feature("inputs_preceded_by_a_parse_whose_reader_failed")
			}
			var base realResult
			var baseCanon, baseErr string
			bad := false
			for i, e := range eps {
				rec.reset()
				rr := realParse(e.f)
				if rr.Panicked {
					c.Feature("parse_panicked_(see_C06)")
					bad = true
					break
				}
				canon := rr.AST.Canon(true)
				if rr.NilAST {
					canon = "nil"
				}
				es := ""
				if rr.Err != nil {
					es = rr.Err.Error()
				}
				// tokens handed out during this call == Parser.Lex
				if !mapped && lexErr == nil && len(rec.streams) > 0 {
					if d := sameStream(rec.streams[len(rec.streams)-1], L); d != "" {
						report(fmt.Sprintf("%s consumed a token stream different from Parser.Lex (%s via %s)", e.name, d, rec.via[len(rec.via)-1]))
						bad = true
						break
					}
				}
				if i == 0 {
					base, baseCanon, baseErr = rr, canon, es
					continue
				}
				if canon != baseCanon {
					report(fmt.Sprintf("%s and %s return different ASTs: %s vs %s", eps[0].name, e.name, trunc(baseCanon, 300), trunc(canon, 300)))
					bad = true
					break
				}
				if es != baseErr {
					report(fmt.Sprintf("%s and %s return different errors: %q vs %q", eps[0].name, e.name, baseErr, es))
					bad = true
					break
				}
			}
			if bad {
				c.End(key)
				continue
			}
			if (lexErr != nil) != (base.NilAST && base.Err != nil) && lexErr != nil {
				report(fmt.Sprintf("Parser.Lex fails (%v) but ParseString returned ast-nil=%v err=%v", lexErr, base.NilAST, base.Err))
			}
			if traceBuf.Len() == 0 && lexErr == nil {
				report("Trace option produced no output")
			}
			// definition-level: Lex / LexString / LexBytes yield identical streams
			defStreams := map[string][]lexer.Token{}
			defErrs := map[string]string{}
			try := func(name string, f func() (lexer.Lexer, error)) {
				mon.Guard(func() {
					lx, err := f()
					if err != nil {
						defErrs[name] = err.Error()
						return
					}
					ts, err := lexer.ConsumeAll(lx)
					if err != nil {
						defErrs[name] = err.Error()
					}
					defStreams[name] = ts
				})
			}
			try("Lex", func() (lexer.Lexer, error) { return raw.Lex(fname, strings.NewReader(text)) })
			try("Lex(DataErrReader)", func() (lexer.Lexer, error) { return raw.Lex(fname, iotest.DataErrReader(strings.NewReader(text))) })
			try("Lex(HalfReader)", func() (lexer.Lexer, error) { return raw.Lex(fname, iotest.HalfReader(strings.NewReader(text))) })
			if sd, ok := raw.(lexer.StringDefinition); ok {
				try("LexString", func() (lexer.Lexer, error) { return sd.LexString(fname, text) })
			}
			if bd, ok := raw.(lexer.BytesDefinition); ok {
				try("LexBytes", func() (lexer.Lexer, error) { return bd.LexBytes(fname, []byte(text)) })
			}
			if g.Profile == gram.ProfDefault {
				try("lexer.LexString", func() (lexer.Lexer, error) { return lexer.LexString(fname, text), nil })
				try("lexer.LexBytes", func() (lexer.Lexer, error) { return lexer.LexBytes(fname, []byte(text)), nil })
			}
			for name, ts := range defStreams {
				if name == "Lex" {
					continue
				}
				if d := sameStream(defStreams["Lex"], ts); d != "" || defErrs["Lex"] != defErrs[name] {
					report(fmt.Sprintf("definition Lex and %s differ: %s (errors %q vs %q)", name, d, defErrs["Lex"], defErrs[name]))
				}
			}
			if !mapped && lexErr == nil {
				if d := sameStream(defStreams["Lex"], L); d != "" {
					report("Parser.Lex differs from the definition's own Lex: " + d)
				}
			}
			// after ParseFromLexer with trailing allowed the caller's lexer stands at the first unconsumed token
			if lexErr == nil && !mapped {
				var pl *lexer.PeekingLexer
				rr := realParse(func() (interface{}, error) {
					var err error
					pl, err = lexer.Upgrade(&sliceLex{toks: L}, elTypes...)
					if err != nil {
						return nil, err
					}
					return b.ParseFromLexer(pl, participle.AllowTrailing(true))
				})
				if !rr.Panicked && rr.Err == nil && pl != nil {
					env := gram.NewEnv(g, L, sym, elided, nil, []int{1, 2, participle.MaxLookahead}[gi%3], true)
					ref := env.Run()
					if !env.Over && env.Unspec == "" && ref.OK {
						want := L[len(L)-1]
						for i := ref.End; i < len(L); i++ {
							if L[i].Type == lexer.EOF || !gpElided(gp, L[i].Type) {
								want = L[i]
								break
							}
						}
						if got := *pl.Peek(); got != want {
							report(fmt.Sprintf("after ParseFromLexer(AllowTrailing) the caller's lexer peeks %#v, the first unconsumed token is %#v", got, want))
						}
						c.Feature("lexer_position_after_ParseFromLexer_checked")
						if want.Type != lexer.EOF {
							c.Feature("...with_trailing_tokens_left")
						}
					}
				}
			}
			if len(L) >= 4 && (strings.Contains(text, "\n") || len(elided) > 0) {
				c.Nontrivial(h.IR + "\x00" + text)
				if ii%13 == 0 {
					c.Sample(map[string]interface{}{"grammar": gdesc, "input": text, "filename": fname, "entry_points": len(eps), "accepted": base.Err == nil, "mapped": mapped})
				}
			}
			if base.Err == nil {
				c.Feature("inputs_accepted")
			} else if lexErr != nil {
				c.Feature("inputs_with_lexing_error")
			} else {
				c.Feature("inputs_with_parse_error")
			}
			c.End(key)
		}
	}
}

func gpElided(gp *gparsers, t lexer.TokenType) bool {
	for _, n := range gp.elided {
		if gp.sym[n] == t {
			return true
		}
	}
	return false
}

func init() {
	Register(&mon.Spec{
		ID:          "C15",
		Rule:        "case = (generated grammar over the default, stateful or lower-case-eliding lexer, optionally behind Upper/Map token mappers; input text incl. arbitrary bytes; filename; AllowTrailing). ParseString, ParseBytes, Parse(reader), ParseFromLexer over Upgrade(Lexer().Lex(...)), ParseString+Trace and Parse(\"\", named reader) must return identical ASTs (all fields, positions, token lists) and identical error texts; a recording Definition wrapper (forwarding Lex/LexString/LexBytes to the wrapped definition's own methods) must see exactly Parser.Lex's tokens during each call; the definition's Lex/LexString/LexBytes (and lexer.LexString/LexBytes) must yield identical streams; after ParseFromLexer(AllowTrailing) the caller's lexer must peek the first unconsumed token (decided by the reference semantics). Non-trivial: >=3 tokens and a multi-line input or elided tokens. Distinct by (grammar IR, text). Every second grammar runs over a user definition that itself implements LexString and LexBytes; Parse(filename, reader with another Name()) must use the explicit filename.",
		Assumptions: []string{"with token mappers the recorder sits below the mapper, so the handed-out-tokens comparison is only made for unmapped parsers; AST/error agreement is checked for all", "generated Go lexers as the parser's lexer are exercised in the C05 check"},
		Batches:     func(t string) int { return pick(t, 4, 16) },
		Floor:       func(t string) int { return pick(t, 1500, 20000) },
		TimeoutSec:  func(t string) int { return pick(t, 300, 3600) },
		Prepare:     gramPrepare("C15", func(t string) int { return pick(t, 80, 200) }, c15Opts, nil, false),
		Child:       c15Child,
	})
}
