package props

import (
	"fmt"
	"strings"

	"github.com/alecthomas/participle/v2"
	"github.com/alecthomas/participle/v2/lexer"

	"verifharness/mon"
)

// Captures nested inside a capture of the same lexer.Token / []lexer.Token
// field. The generated grammars never nest captures (what a nested capture
// means for string fields is not documented); for Token-typed fields the
// meaning is: the first matched token, and the run from the first to the last
// matched token. Expectations are computed from Parser.Lex output.

type c01Nest struct {
	Kw   string        `@"let"`
	Op   lexer.Token   `@( @Ident | @Int )`
	Rest []lexer.Token `@( @Ident @Int )`
}

var c01NestLex = lexer.MustSimple([]lexer.SimpleRule{
	{Name: "Comment", Pattern: `#[^\n]*`},
	{Name: "Int", Pattern: `\d+`},
	{Name: "Ident", Pattern: `[a-zé]+`},
	{Name: "Whitespace", Pattern: `\s+`},
})

func c01NestedCaptures(c *mon.Child) {
	p, err := participle.Build[c01Nest](participle.Lexer(c01NestLex), participle.Elide("Whitespace", "Comment"))
	if err != nil {
		c.Violation("", "nested", "grammar with nested Token captures does not build: "+err.Error(), nil)
		return
	}
	sym := c01NestLex.Symbols()
	el := map[lexer.TokenType]bool{sym["Whitespace"]: true, sym["Comment"]: true}
	r := c.RNG("nestedcap")
	sp := func(must bool) string {
		s := r.Pick("", " ", "  ", "\n", " # c\n", "\t")
		if must && s == "" {
			return " "
		}
		return s
	}
	for i := 0; i < c.N(800, 8000); i++ {
		key := fmt.Sprintf("nestcap%d", i)
		if !c.Want(key) {
			continue
		}
		op := r.Pick("x", "7", "é", "42")
		in := sp(false) + "let" + sp(true) + op + sp(true) + r.Pick("y", "foo") + sp(true) + r.Pick("1", "23") + sp(false)
		c.Begin(key, fmt.Sprintf("nested Token captures <- %q", in))
		c.Eval(1)
		var v *c01Nest
		var perr error
		var L []lexer.Token
		if pn, pv, st := mon.Guard(func() { L, _ = p.Lex("", strings.NewReader(in)); v, perr = p.ParseString("", in) }); pn {
			c.Violation("", key, fmt.Sprintf("parse panicked (%s) at %s | input %q", pv, st, in), nil)
			c.End(key)
			continue
		}
		var idx []int // indices of the non-elided tokens
		for j, t := range L {
			if !el[t.Type] && !t.EOF() {
				idx = append(idx, j)
			}
		}
		report := func(what string) {
			c.Violation("", key, what+fmt.Sprintf(" | grammar: Kw string `@\"let\"`; Op lexer.Token `@( @Ident | @Int )`; Rest []lexer.Token `@( @Ident @Int )` | input %q", in), map[string]interface{}{"input": in})
		}
		switch {
		case perr != nil || v == nil:
			report(fmt.Sprintf("valid input rejected: %v", perr))
		case len(idx) != 4:
			// not the shape this case is about
		case v.Op != L[idx[1]]:
			report(fmt.Sprintf("Op holds %s, the first token its capture matched is %s", gramTok(v.Op), gramTok(L[idx[1]])))
		case !sameStream2(v.Rest, L[idx[2]:idx[3]+1]):
			report(fmt.Sprintf("Rest holds %d tokens starting with %s, the run from the first to the last matched token is %d tokens starting with %s", len(v.Rest), firstTok(v.Rest), idx[3]+1-idx[2], gramTok(L[idx[2]])))
		}
		c.Nontrivial("nestcap:" + in)
		c.Feature("nested_token_captures_checked")
		c.End(key)
	}
}

func gramTok(t lexer.Token) string { return fmt.Sprintf("%q@%d", t.Value, t.Pos.Offset) }

func firstTok(ts []lexer.Token) string {
	if len(ts) == 0 {
		return "(nothing)"
	}
	return gramTok(ts[0])
}

func sameStream2(a, b []lexer.Token) bool {
	if len(a) != len(b) {
		return false
	}
	for i := range a {
		if a[i] != b[i] {
			return false
		}
	}
	return true
}
