package props

import (
	"fmt"
	"os"
	"path/filepath"
	"reflect"
	"strings"
	"sync"

	"github.com/alecthomas/participle/v2"
	"github.com/alecthomas/participle/v2/lexer"

	"verifharness/gram"
	"verifharness/mon"
)

// Lookahead values every grammar is parsed under.
var allKs = []int{0, 1, 2, 3, 5, 8, 50, participle.MaxLookahead, -1}

func harnessDir() string {
	root := os.Getenv("VERIF_ROOT")
	if root == "" {
		root = "/verif"
	}
	return filepath.Join(root, "harness")
}

// gramPrepare returns a Prepare step that generates count(tier) grammars per
// batch with opts, emits one program per batch and builds them in parallel.
func gramPrepare(id string, count func(tier string) int, opts func(r *mon.RNG, i int) *gram.GenOpts, extra func(p *mon.Parent, batch int) []*gram.Grammar, race bool) func(p *mon.Parent) (func(int) string, error) {
	return gramPrepareEx(id, count, opts, extra, race, nil)
}

// gramPrepareEx additionally lets the property add files to each program directory before the build.
func gramPrepareEx(id string, count func(tier string) int, opts func(r *mon.RNG, i int) *gram.GenOpts, extra func(p *mon.Parent, batch int) []*gram.Grammar, race bool, post func(dir string) error) func(p *mon.Parent) (func(int) string, error) {
	return func(p *mon.Parent) (func(int) string, error) {
		bins := make([]string, p.NBatch)
		errs := make([]error, p.NBatch)
		var wg sync.WaitGroup
		sem := make(chan struct{}, 8)
		for b := 0; b < p.NBatch; b++ {
			if !p.WantBatch(b) {
				continue
			}
			b := b
			wg.Add(1)
			go func() {
				defer wg.Done()
				sem <- struct{}{}
				defer func() { <-sem }()
				var gs []*gram.Grammar
				n := count(p.Tier)
				for i := 0; i < n; i++ {
					r := mon.NewRNG(p.Seed, id, b, "grammar", i)
					gid := fmt.Sprintf("G%d_%d", b, i)
					gs = append(gs, gram.Generate(r, gid, opts(r, i)))
				}
				if extra != nil {
					gs = append(gs, extra(p, b)...)
				}
				dir := filepath.Join(p.Scratch, fmt.Sprintf("prog%03d", b))
				if err := gram.EmitProgram(dir, gs, harnessDir()); err != nil {
					errs[b] = err
					return
				}
				if post != nil {
					if err := post(dir); err != nil {
						errs[b] = err
						return
					}
				}
				bins[b], errs[b] = gram.BuildProgram(dir, race)
			}()
		}
		wg.Wait()
		for b, err := range errs {
			if err != nil {
				return nil, fmt.Errorf("batch %d: %w", b, err)
			}
		}
		return func(b int) string { return bins[b] }, nil
	}
}

// gparsers holds one built parser per lookahead value for a grammar.
type gparsers struct {
	g      *gram.Grammar
	h      *gram.Handle
	an     *gram.Analysis
	ci     []string
	byK    map[int]gram.Built
	sym    map[string]lexer.TokenType
	elided []string
	err    error
}

func buildAll(h *gram.Handle, ks []int, ciChoice bool) *gparsers {
	g, err := gram.ParseGrammar(h.IR)
	if err != nil {
		return &gparsers{err: err}
	}
	gp := &gparsers{g: g, h: h, an: gram.Analyse(g), byK: map[int]gram.Built{}, elided: gram.ElidedNames(g.Profile)}
	if ciChoice && (g.Profile == gram.ProfStateful || g.Profile == gram.ProfLower) {
		gp.ci = []string{"Kw"}
	}
	for _, k := range ks {
		opts := append([]participle.Option{}, gram.LexerOptions(g.Profile)...)
		opts = append(opts, participle.UseLookahead(k))
		if len(gp.ci) > 0 {
			opts = append(opts, participle.CaseInsensitive(gp.ci...))
		}
		var b gram.Built
		var berr error
		p, pv, st := mon.Guard(func() { b, berr = h.Build(opts...) })
		if p {
			gp.err = fmt.Errorf("Build panicked: %s at %s", pv, st)
			return gp
		}
		if berr != nil {
			gp.err = berr
			return gp
		}
		gp.byK[k] = b
		if gp.sym == nil {
			gp.sym = b.Lexer().Symbols()
		}
	}
	return gp
}

func kName(k int) string {
	switch {
	case k < 0:
		return "unlimited"
	case k == participle.MaxLookahead:
		return "MaxLookahead"
	}
	return fmt.Sprint(k)
}

// realParse runs one parse under the panic monitor.
type realResult struct {
	AST      *gram.RNode
	Err      error
	Panicked bool
	PanicVal string
	Stack    string
	NilAST   bool
	Raw      interface{} // the value the parser returned (C11 re-reads it after later parses)
}

func realParse(f func() (interface{}, error)) realResult {
	var v interface{}
	var err error
	var rr realResult
	p, pv, st := mon.Guard(func() { v, err = f() })
	if p {
		rr.Panicked, rr.PanicVal, rr.Stack = true, pv, st
		return rr
	}
	rr.Err = err
	if v == nil || reflect.ValueOf(v).IsNil() {
		rr.NilAST = true
	} else {
		rr.AST = gram.FromReal(reflect.ValueOf(v))
		rr.Raw = v
	}
	return rr
}

func diffsText(ds []gram.Diff) (string, string) {
	var parts []string
	class := ""
	for i, d := range ds {
		parts = append(parts, d.String())
		if i == 0 {
			class = d.Class
		} else if d.Class != class {
			class = ""
		}
	}
	return strings.Join(parts, "; "), class
}

// traceFeatures folds the evaluator's decision trace into the evidence counters.
func traceFeatures(c *mon.Child, tr *gram.Trace) {
	c.FeatureN("ref_attempts_abandoned", int64(tr.Abandoned))
	c.FeatureN("ref_failures_committed", int64(tr.Committed))
	c.FeatureN("ref_abandoned_with_captures", int64(tr.AbandonedWithCaps))
	c.FeatureN("ref_abandoned_after_completed_subproduction", int64(tr.AbandonedWithSub))
	c.FeatureN("ref_abandoned_after_failed_subproduction", int64(tr.AbandonedFailSub))
	c.FeatureN("ref_captures_discarded_in_lookahead_or_negation", int64(tr.LookDiscardCaps))
	c.FeatureN("ref_later_alternative_won", int64(tr.LaterAltWon))
	c.FeatureN("ref_typed_literal_rejected_by_type", int64(tr.TypedLitRejected))
	c.FeatureN("ref_literal_matched_by_case_folding", int64(tr.CIFolded))
	c.FeatureN("ref_elided_token_at_backtrack_point", int64(tr.ElidedAtBacktrack))
	c.FeatureN("ref_named_elided_token_matched", int64(tr.NamedElidedMatch))
	c.FeatureN("ref_explicit_EOF_matched", int64(tr.EOFMatched))
	c.FeatureN("ref_nonempty_group_failed", int64(tr.NonEmptyFailed))
	for k, v := range tr.ByKind {
		c.FeatureN("ref_"+k, int64(v))
	}
	for d, v := range tr.Delta {
		c.FeatureN(fmt.Sprintf("ref_decisions_at_consumed_minus_k=%+d", d), int64(v))
	}
	c.FeatureMax("max:subproduction_depth", int64(tr.MaxSubDepth))
}

// affordable runs the reference evaluator, under a step budget, with every
// lookahead value the real parser is about to be run with, and reports whether
// the input is cheap enough to hand to the real parser in the metamorphic and
// totality checks. Backtracking parsers are exponential on some (grammar,
// input, lookahead) triples - and not monotonically in the lookahead: a
// committed failure inside a negative lookahead group lets the parse go on
// where unlimited lookahead would have stopped. Such triples are skipped and
// counted, so that a watchdog firing later means "far beyond the reference's
// cost", not "slow".
func affordable(c *mon.Child, gp *gparsers, T []lexer.Token) bool {
	ks := make([]int, 0, len(gp.byK))
	for k := range gp.byK {
		ks = append(ks, k)
	}
	if len(ks) == 0 {
		ks = []int{-1}
	}
	return affordableK(c, gp, T, ks)
}

func affordableK(c *mon.Child, gp *gparsers, T []lexer.Token, ks []int) bool {
	for _, k := range ks {
		for _, trailing := range []bool{true, false} {
			env := gram.NewEnv(gp.g, T, gp.sym, gp.elided, gp.ci, k, trailing)
			env.Budget = 150000
			env.Run()
			if env.Over {
				c.Inconclusive("reference-step-budget")
				return false
			}
		}
	}
	return true
}

// featInputs returns the explicit inputs a witness grammar carries.
func featInputs(g *gram.Grammar) [][]string {
	var out [][]string
	for _, f := range g.Feat {
		if strings.HasPrefix(f, "input:") {
			out = append(out, strings.Fields(f[6:]))
		}
	}
	return out
}

// witnessExtra adds the hand-written witness grammars to batch 0.
func witnessExtra(p *mon.Parent, batch int) []*gram.Grammar {
	if batch != 0 {
		return nil
	}
	var out []*gram.Grammar
	for _, g := range gram.Witnesses() {
		usesTok := false
		for _, pr := range g.Prods {
			for _, f := range pr.Fields {
				if f.Kind == "tok" || f.Kind == "toks" {
					usesTok = true
				}
			}
		}
		// Token-typed captures are C01's statement (and carry its open finding); C02 judges captured values only.
		if p.Spec.ID == "C02" && usesTok {
			continue
		}
		out = append(out, g)
	}
	return out
}
