package props

import (
	"fmt"
	"strings"

	"github.com/alecthomas/participle/v2"

	"verifharness/gram"
	"verifharness/mon"
)

// C08: left-recursive grammars are rejected at build time, so parsing terminates.

func c08Opts(r *mon.RNG, i int) *gram.GenOpts {
	prof := []int{gram.ProfStateful, gram.ProfDefault}[i%2]
	return &gram.GenOpts{Profile: prof, MaxProds: 5, Budget: 8 + r.Intn(10), Depth: 2 + r.Intn(2), Unions: true,
		SharePrefix: 2, CaptureBias: 2, SubBias: 7, AllowLeftRec: true}
}

// depthWriter is the Trace instrument: participle prints one line per node
// visit, indented two spaces per nesting level. It keeps the maximum depth and
// the number of visits, and aborts the parse (by panicking; the harness
// recovers) when a logical bound is exceeded, long before the real stack is.
type depthWriter struct {
	max    int
	visits int
	bound  int
	vbound int
}

type depthExceeded struct{ depth, visits int }

func (w *depthWriter) Write(p []byte) (int, error) {
	n := 0
	for n < len(p) && p[n] == ' ' {
		n++
	}
	d := n / 2
	w.visits++
	if d > w.max {
		w.max = d
	}
	if (w.bound > 0 && d > w.bound) || (w.vbound > 0 && w.visits > w.vbound) {
		panic(depthExceeded{d, w.visits})
	}
	return len(p), nil
}

// tracedParse runs a parse with the depth monitor; exceeded reports that the
// logical recursion bound was crossed.
func tracedParse(b gram.Built, text string, bound, vbound int) (exceeded bool, w *depthWriter, panicVal string) {
	w = &depthWriter{bound: bound, vbound: vbound}
	func() {
		defer func() {
			if r := recover(); r != nil {
				if _, ok := r.(depthExceeded); ok {
					exceeded = true
				} else {
					panicVal = fmt.Sprint(r)
				}
			}
		}()
		_, _ = b.ParseString("", text, participle.Trace(w))
	}()
	return
}

// c08Templates enumerates placements of the recursive reference.
func c08Templates(batch, nbatch int) []*gram.Grammar {
	var out []*gram.Grammar
	lit := func(s string) *gram.Expr { return &gram.Expr{Op: "lit", Text: s} }
	seq := func(k ...*gram.Expr) *gram.Expr {
		if len(k) == 1 {
			return k[0]
		}
		return &gram.Expr{Op: "seq", Kids: k}
	}
	grp := func(mode string, k *gram.Expr) *gram.Expr {
		return &gram.Expr{Op: "grp", Mode: mode, Kids: []*gram.Expr{k}}
	}
	prefixes := []string{"none", "opt", "star", "poslook", "neglook", "consume", "bracketopt", "optgroup2", "nullable-production", "nullable-chain", "nullable-then-dependent", "nonempty-group-of-nullable-production", "lookalike-production-optional-head", "alternation-with-a-nullable-branch"}
	wrappers := []string{"bare", "paren", "optgroup", "stargroup", "look", "neg", "plusgroup", "captured-group-before"}
	routes := []string{"direct", "viaB", "viaUnion", "viaBnullableprefix", "viaUnionOnly", "unionCycleBelowRoot", "unionRootDirect", "unionRootViaRoot", "unusedUnion"}
	altpos := []string{"first", "second-after-single", "second-after-multi", "third"}
	n := 0
	for pi, pf := range prefixes {
		for wi, wr := range wrappers {
			for ri, rt := range routes {
				for ai, ap := range altpos {
					n++
					if n%nbatch != batch {
						continue
					}
					id := fmt.Sprintf("T%d_%d_%d_%d", pi, wi, ri, ai)
					A, B, C, U := id+"A", id+"B", id+"C", id+"U"
					g := &gram.Grammar{ID: id, Root: A, Profile: gram.ProfDefault, Feat: []string{"prefix=" + pf, "wrapper=" + wr, "route=" + rt, "alt=" + ap}}
					// the reference that closes the cycle, capturing into field fidx of its production
					N1, N2, N3 := id+"N1", id+"N2", id+"N3"
					needN := 0
					needN3 := false
					mkRefT := func(fields *[]gram.Field, target string) []*gram.Expr {
						var pre []*gram.Expr
						switch pf {
						case "nullable-production":
							*fields = append(*fields, gram.Field{Name: fmt.Sprintf("F%d", len(*fields)), Kind: "ptr", Target: N1})
							pre = append(pre, &gram.Expr{Op: "sub", Field: len(*fields) - 1})
							needN = 1
						case "nullable-then-dependent":
							// @@N1 @@N2 with N2 = @@N1 ...: N2 is discovered after the production it depends on
							*fields = append(*fields, gram.Field{Name: fmt.Sprintf("F%d", len(*fields)), Kind: "ptr", Target: N1})
							pre = append(pre, &gram.Expr{Op: "sub", Field: len(*fields) - 1})
							*fields = append(*fields, gram.Field{Name: fmt.Sprintf("F%d", len(*fields)), Kind: "ptr", Target: N2})
							pre = append(pre, &gram.Expr{Op: "sub", Field: len(*fields) - 1})
							needN = 2
						case "nonempty-group-of-nullable-production":
							// ( @@N1 )! : the capture satisfies "!" by value even when N1 consumed nothing
							*fields = append(*fields, gram.Field{Name: fmt.Sprintf("F%d", len(*fields)), Kind: "ptr", Target: N1})
							pre = append(pre, grp("!", grp("", &gram.Expr{Op: "sub", Field: len(*fields) - 1})))
							needN = 1
						case "lookalike-production-optional-head":
							// @@N3 with N3 = "x"? @"y": every term but the last is optional, the production still consumes a token
							*fields = append(*fields, gram.Field{Name: fmt.Sprintf("F%d", len(*fields)), Kind: "ptr", Target: N3})
							pre = append(pre, &gram.Expr{Op: "sub", Field: len(*fields) - 1})
							needN3 = true
						case "nullable-chain":
							*fields = append(*fields, gram.Field{Name: fmt.Sprintf("F%d", len(*fields)), Kind: "ptr", Target: N2})
							pre = append(pre, &gram.Expr{Op: "sub", Field: len(*fields) - 1})
							needN = 2
						}
						kind := "ptr"
						if target == U {
							kind = "uni"
						}
						*fields = append(*fields, gram.Field{Name: fmt.Sprintf("F%d", len(*fields)), Kind: kind, Target: target})
						fidx := len(*fields) - 1
						sub := &gram.Expr{Op: "sub", Field: fidx}
						var w *gram.Expr
						switch wr {
						case "bare":
							w = sub
						case "paren":
							w = grp("", seq(sub, lit("z")))
						case "optgroup":
							w = grp("?", seq(sub, lit("z")))
						case "stargroup":
							w = grp("*", seq(sub, lit("z")))
						case "plusgroup":
							w = grp("+", seq(sub, lit("z")))
						case "look":
							w = &gram.Expr{Op: "look", Kids: []*gram.Expr{seq(sub, lit("z"))}}
						case "neg":
							w = &gram.Expr{Op: "neg", Kids: []*gram.Expr{grp("", seq(sub, lit("z")))}}
						case "captured-group-before":
							w = sub
						}
						switch pf {
						case "opt":
							pre = append(pre, grp("?", lit("x")))
						case "star":
							pre = append(pre, grp("*", lit("x")))
						case "poslook":
							pre = append(pre, &gram.Expr{Op: "look", Kids: []*gram.Expr{lit("x")}})
						case "neglook":
							pre = append(pre, &gram.Expr{Op: "look", Negative: true, Kids: []*gram.Expr{lit("q")}})
						case "consume":
							pre = append(pre, lit("x"))
						case "bracketopt":
							pre = append(pre, &gram.Expr{Op: "grp", Mode: "?", Brack: true, Kids: []*gram.Expr{lit("x")}})
						case "alternation-with-a-nullable-branch":
							// ( "x" | "y"? ): one branch can match nothing, so the group can
							pre = append(pre, grp("", &gram.Expr{Op: "alt", Kids: []*gram.Expr{lit("x"), grp("?", lit("y"))}}))
						case "optgroup2":
							pre = append(pre, grp("?", seq(lit("x"), lit("y"))), grp("*", lit("w")))
						}
						return append(pre, w, lit("e"))
					}
					// where the cycle is closed
					var aFields []gram.Field
					var recAlt *gram.Expr
					switch rt {
					case "direct":
						recAlt = seq(mkRefT(&aFields, A)...)
					case "viaB", "viaBnullableprefix":
						aFields = []gram.Field{{Name: "F0", Kind: "ptr", Target: B}}
						if rt == "viaB" {
							recAlt = seq(&gram.Expr{Op: "sub", Field: 0}, lit("e"))
						} else {
							recAlt = seq(grp("?", lit("v")), &gram.Expr{Op: "sub", Field: 0}, lit("e"))
						}
						var bFields []gram.Field
						bexpr := &gram.Expr{Op: "alt", Kids: []*gram.Expr{seq(lit("b"), lit("c")), seq(mkRefT(&bFields, A)...)}}
						g.Prods = append(g.Prods, &gram.Prod{Name: B, Fields: bFields, Expr: bexpr, PosStyle: 0})
					case "unionCycleBelowRoot":
						// root R = "s" @@U ; U = union(C, &B) ; B = <prefix> @@U "e" | ... : the cycle B -> U -> B
						// does not contain the root, and B is referenced through the union only
						aFields = []gram.Field{{Name: "F0", Kind: "uni", Target: U}}
						recAlt = nil
						var bFields []gram.Field
						brec := seq(mkRefT(&bFields, U)...)
						var bexpr *gram.Expr
						switch ap {
						case "first":
							bexpr = &gram.Expr{Op: "alt", Kids: []*gram.Expr{brec, seq(lit("t"), lit("u"), lit("v"))}}
						case "second-after-single":
							bexpr = &gram.Expr{Op: "alt", Kids: []*gram.Expr{lit("t"), brec}}
						case "second-after-multi":
							bexpr = &gram.Expr{Op: "alt", Kids: []*gram.Expr{seq(lit("t"), lit("u"), lit("v")), brec}}
						default:
							bexpr = &gram.Expr{Op: "alt", Kids: []*gram.Expr{seq(lit("t"), lit("u")), seq(lit("m"), lit("n"), lit("o")), brec}}
						}
						g.Prods = append(g.Prods,
							&gram.Prod{Name: C, Fields: []gram.Field{{Name: "F0", Kind: "string"}}, Expr: seq(lit("c"), &gram.Expr{Op: "cap", Field: 0, Kids: []*gram.Expr{{Op: "ref", Typ: "Ident"}}})},
							&gram.Prod{Name: B, Fields: bFields, Expr: bexpr})
						g.Unions = append(g.Unions, &gram.Union{Name: U, Members: []gram.Member{{Prod: C}, {Prod: B, Ptr: true}}})
					case "unusedUnion":
						// root A = "s" @Ident never refers to the declared union U = union(C, &B); B re-enters itself
						// behind <prefix>. Build compiles B all the same and ParserForProduction hands out a parser for it.
						aFields = []gram.Field{{Name: "F0", Kind: "string"}}
						recAlt = nil
						var bFields []gram.Field
						brec := seq(mkRefT(&bFields, B)...)
						var bexpr *gram.Expr
						switch ap {
						case "first":
							bexpr = &gram.Expr{Op: "alt", Kids: []*gram.Expr{brec, seq(lit("t"), lit("u"), lit("v"))}}
						case "second-after-single":
							bexpr = &gram.Expr{Op: "alt", Kids: []*gram.Expr{lit("t"), brec}}
						case "second-after-multi":
							bexpr = &gram.Expr{Op: "alt", Kids: []*gram.Expr{seq(lit("t"), lit("u"), lit("v")), brec}}
						default:
							bexpr = &gram.Expr{Op: "alt", Kids: []*gram.Expr{seq(lit("t"), lit("u")), seq(lit("m"), lit("n"), lit("o")), brec}}
						}
						g.Prods = append(g.Prods,
							&gram.Prod{Name: C, Fields: []gram.Field{{Name: "F0", Kind: "string"}}, Expr: seq(lit("c"), &gram.Expr{Op: "cap", Field: 0, Kids: []*gram.Expr{{Op: "ref", Typ: "Ident"}}})},
							&gram.Prod{Name: B, Fields: bFields, Expr: bexpr})
						g.Unions = append(g.Unions, &gram.Union{Name: U, Members: []gram.Member{{Prod: C}, {Prod: B, Ptr: true}}})
					case "unionRootDirect", "unionRootViaRoot":
						// the grammar root is the union U = union(C, &B) itself; its first member C reaches nothing else,
						// the later member B re-enters itself (or the root union) behind <prefix>
						g.Root = U
						recAlt = nil
						var bFields []gram.Field
						tgt := B
						if rt == "unionRootViaRoot" {
							tgt = U
						}
						brec := seq(mkRefT(&bFields, tgt)...)
						var bexpr *gram.Expr
						switch ap {
						case "first":
							bexpr = &gram.Expr{Op: "alt", Kids: []*gram.Expr{brec, seq(lit("t"), lit("u"), lit("v"))}}
						case "second-after-single":
							bexpr = &gram.Expr{Op: "alt", Kids: []*gram.Expr{lit("t"), brec}}
						case "second-after-multi":
							bexpr = &gram.Expr{Op: "alt", Kids: []*gram.Expr{seq(lit("t"), lit("u"), lit("v")), brec}}
						default:
							bexpr = &gram.Expr{Op: "alt", Kids: []*gram.Expr{seq(lit("t"), lit("u")), seq(lit("m"), lit("n"), lit("o")), brec}}
						}
						g.Prods = append(g.Prods,
							&gram.Prod{Name: C, Fields: []gram.Field{{Name: "F0", Kind: "string"}}, Expr: seq(lit("c"), &gram.Expr{Op: "cap", Field: 0, Kids: []*gram.Expr{{Op: "ref", Typ: "Ident"}}})},
							&gram.Prod{Name: B, Fields: bFields, Expr: bexpr})
						g.Unions = append(g.Unions, &gram.Union{Name: U, Members: []gram.Member{{Prod: C}, {Prod: B, Ptr: true}}})
					case "viaUnionOnly":
						// the cycle closes through a union whose member is the production itself:
						// no struct of the cycle is referenced by a plain @@ field
						recAlt = seq(mkRefT(&aFields, U)...)
						g.Prods = append(g.Prods,
							&gram.Prod{Name: C, Fields: []gram.Field{{Name: "F0", Kind: "string"}}, Expr: seq(lit("c"), &gram.Expr{Op: "cap", Field: 0, Kids: []*gram.Expr{{Op: "ref", Typ: "Ident"}}})})
						g.Unions = append(g.Unions, &gram.Union{Name: U, Members: []gram.Member{{Prod: C}, {Prod: A, Ptr: true}}})
					case "viaUnion":
						aFields = []gram.Field{{Name: "F0", Kind: "uni", Target: U}}
						recAlt = seq(&gram.Expr{Op: "sub", Field: 0}, lit("e"))
						g.Prods = append(g.Prods,
							&gram.Prod{Name: C, Fields: []gram.Field{{Name: "F0", Kind: "string"}}, Expr: seq(lit("c"), &gram.Expr{Op: "cap", Field: 0, Kids: []*gram.Expr{{Op: "ref", Typ: "Ident"}}})},
							func() *gram.Prod {
								var bFields []gram.Field
								e := seq(mkRefT(&bFields, A)...)
								return &gram.Prod{Name: B, Fields: bFields, Expr: e}
							}())
						g.Unions = append(g.Unions, &gram.Union{Name: U, Members: []gram.Member{{Prod: C}, {Prod: B, Ptr: true}}})
					}
					single := lit("t")
					multi := seq(lit("t"), lit("u"), lit("v"))
					var aexpr *gram.Expr
					if rt == "unionCycleBelowRoot" {
						aexpr = seq(lit("s"), &gram.Expr{Op: "sub", Field: 0})
					} else if rt == "unusedUnion" {
						aexpr = seq(lit("s"), &gram.Expr{Op: "cap", Field: 0, Kids: []*gram.Expr{{Op: "ref", Typ: "Ident"}}})
					} else {
						switch ap {
						case "first":
							aexpr = &gram.Expr{Op: "alt", Kids: []*gram.Expr{recAlt, multi}}
						case "second-after-single":
							aexpr = &gram.Expr{Op: "alt", Kids: []*gram.Expr{single, recAlt}}
						case "second-after-multi":
							aexpr = &gram.Expr{Op: "alt", Kids: []*gram.Expr{multi, recAlt}}
						case "third":
							aexpr = &gram.Expr{Op: "alt", Kids: []*gram.Expr{seq(lit("t"), lit("u")), seq(lit("m"), lit("n"), lit("o")), recAlt}}
						}
					}
					if g.Root == A {
						aprod := &gram.Prod{Name: A, Fields: aFields, Expr: aexpr}
						g.Prods = append([]*gram.Prod{aprod}, g.Prods...)
					}
					if needN >= 1 {
						n1 := &gram.Prod{Name: N1, Fields: []gram.Field{{Name: "F0", Kind: "string"}}, Expr: grp("?", &gram.Expr{Op: "cap", Field: 0, Kids: []*gram.Expr{lit("x")}})}
						if needN == 2 {
							n2 := &gram.Prod{Name: N2, Fields: []gram.Field{{Name: "F0", Kind: "ptr", Target: N1}, {Name: "F1", Kind: "string"}}, Expr: seq(&gram.Expr{Op: "sub", Field: 0}, grp("*", &gram.Expr{Op: "cap", Field: 1, Kids: []*gram.Expr{lit("w")}}))}
							g.Prods = append(g.Prods, n2, n1)
						} else {
							g.Prods = append(g.Prods, n1)
						}
					}
					if needN3 {
						g.Prods = append(g.Prods, &gram.Prod{Name: N3, Fields: []gram.Field{{Name: "F0", Kind: "string"}}, Expr: seq(grp("?", lit("x")), &gram.Expr{Op: "cap", Field: 0, Kids: []*gram.Expr{lit("y")}})})
					}
					an := gram.Analyse(g)
					if an.BugClass() != "" && pf != "alternation-with-a-nullable-branch" {
						continue
					}
					out = append(out, g)
				}
			}
		}
	}
	return out
}

func c08Child(c *mon.Child) {
	if c.Batch == 0 {
		c08Static(c)
	}
	for _, h := range gram.Registry {
		key := h.ID
		if !c.Want(key) {
			continue
		}
		g, err := gram.ParseGrammar(h.IR)
		if err != nil {
			continue
		}
		c.Begin(key, trunc(g.String(), 500))
		c.Eval(1)
		an := gram.Analyse(g)
		wantLR, where := an.LeftRecursive()
		var b gram.Built
		var berr error
		p, pv, st := mon.Guard(func() {
			b, berr = h.Build(append(gram.LexerOptions(g.Profile), participle.UseLookahead(2))...)
		})
		gdesc := trunc(g.String(), 900)
		detail := map[string]interface{}{"grammar": g, "placement": g.Feat}
		if p {
			c.Violation("", key, fmt.Sprintf("Build panicked: %s at %s | grammar: %s", pv, st, gdesc), detail)
			c.End(key)
			continue
		}
		gotLR := berr != nil && strings.Contains(berr.Error(), "left recursion")
		for _, f := range g.Feat {
			c.Feature("template_" + f)
		}
		switch {
		case wantLR && !gotLR && berr == nil:
			// Witness against the real code: an input on which the accepted parser recurses without consuming.
			nodes := g.Count()
			smp := gram.NewSampler(g, c.RNG("lr", h.ID))
			tripped := ""
			for i, toks := range append([][]string{{"x"}, {"t"}, {"e"}, {"z", "e"}, {"x", "e"}, {"b"}}, smp.Inputs(30)...) {
				text := gram.Render(g.Profile, toks, 0, c.RNG("r", i))
				exceeded, w, _ := tracedParse(b, text, (len(toks)+2)*(nodes+1)*4+50, 2000000)
				if exceeded {
					tripped = fmt.Sprintf("input %q: recursion depth %d after %d node visits exceeds the bound for %d tokens", text, w.max, w.visits, len(toks))
					break
				}
			}
			what := fmt.Sprintf("Build accepted a grammar in which %s re-enters itself before consuming a token", where)
			if tripped != "" {
				what += "; " + tripped
			} else {
				what += "; (no sampled input tripped the depth monitor)"
			}
			c.Violation("", key, what+" | grammar: "+gdesc, detail)
		case wantLR && !gotLR:
			// rejected for another reason: acceptable ("returns an error"), but note it
			c.Feature("left_recursive_grammars_rejected_with_another_error")
			c.Note("other_error_"+h.ID, trunc(berr.Error(), 200))
		case !wantLR && gotLR:
			c.Violation("", key, fmt.Sprintf("Build rejected a grammar with no left-recursive cycle: %v | grammar: %s", trunc(berr.Error(), 300), gdesc), detail)
		case !wantLR && berr != nil:
			c.Violation("", key, fmt.Sprintf("Build rejected a valid grammar with no left-recursive cycle: %v | grammar: %s", trunc(berr.Error(), 300), gdesc), detail)
		}
		if wantLR {
			c.Feature("grammars_left_recursive_by_our_analysis")
		} else {
			c.Feature("grammars_not_left_recursive_by_our_analysis")
		}
		// Dynamic half: an accepted parser's recursion depth is bounded by the input length.
		// (Grammars of the library's own "grammar bug" class - an alternative that can match nothing - are only
		// judged on Build's verdict: parsing them may panic by design.)
		if berr == nil && !wantLR && an.BugClass() == "" {
			nodes := g.Count()
			smp := gram.NewSampler(g, c.RNG("dyn", h.ID))
			for i, toks := range smp.Inputs(c.N(12, 30)) {
				text := gram.Render(g.Profile, toks, 0, c.RNG("r", i))
				bound := (len(toks) + 2) * (nodes + 1) * 4
				exceeded, w, pv := tracedParse(b, text, bound+50, 3000000)
				c.Eval(1)
				if exceeded && w.max > bound {
					c.Violation("", key, fmt.Sprintf("accepted grammar recursed to depth %d (bound %d for %d tokens, %d grammar nodes) on input %q | grammar: %s", w.max, bound, len(toks), nodes, text, gdesc), detail)
					break
				}
				if exceeded {
					c.Inconclusive("visit-budget")
				}
				_ = pv
				c.FeatureMax("max:trace_depth_seen", int64(w.max))
				c.FeatureN("parses_under_depth_monitor", 1)
			}
		}
		if len(g.Prods) >= 2 || len(g.Feat) > 0 {
			c.Nontrivial(h.IR)
			if wantLR {
				c.Sample(map[string]interface{}{"grammar": trunc(g.String(), 300), "left_recursive": wantLR, "build_error": fmt.Sprint(berr)})
			}
		}
		c.End(key)
	}
}

func init() {
	Register(&mon.Spec{
		ID:          "C08",
		Rule:        "case = grammar program over 1-5 mutually referring productions: (a) systematic templates placing the reference that closes the cycle at every combination of {prefix: none, optional, starred, positive/negative lookahead, consuming (look-alike), bracket-optional, two nullable groups} x {wrapper: bare @@, group, ?/*/+ group, lookahead group, negation} x {route: direct, through another production, through a union member, through another production after a nullable prefix} x {first alternative, second after a single-term / multi-term alternative, third}; (b) random grammars with @@ placed anywhere. Oracle: our own left-edge/nullability analysis of the IR says 'left-recursive' <=> Build returns the left-recursion error; every accepted non-left-recursive grammar is parsed under a Trace-based recursion-depth monitor with bound 4*(tokens+2)*(grammar nodes+1); a left-recursive grammar Build accepted is demonstrated by an input that trips the monitor. Non-trivial: >=2 productions or a template placement. Distinct by grammar IR.",
		Assumptions: []string{"the IR analysis (nullable fixpoint, left-edge calls through groups, captures, lookahead groups, negation operands, unions, every alternative) is the executable reading of 'can re-enter itself before consuming a token'", "Trace does not change parse results (checked by C15)"},
		Batches:     func(t string) int { return pick(t, 4, 16) },
		Floor:       func(t string) int { return pick(t, 300, 1200) },
		TimeoutSec:  func(t string) int { return pick(t, 300, 1800) },
		Prepare: gramPrepare("C08", func(t string) int { return pick(t, 120, 300) }, c08Opts, func(p *mon.Parent, b int) []*gram.Grammar {
			return c08Templates(b, p.NBatch)
		}, false),
		Child: c08Child,
	})
}
