package props

import (
	"fmt"
	"strings"

	"github.com/alecthomas/participle/v2"
	"github.com/alecthomas/participle/v2/lexer"

	"verifharness/mon"
)

// A hand-written production (Parseable) that looks ahead speculatively and
// backs off with the public MakeCheckpoint / LoadCheckpoint of the
// PeekingLexer, inside productions that carry Pos, EndPos and Tokens. The
// harness generates the programs itself, so it knows every statement's extent.

type c11Callee struct {
	Name string
	Call bool
}

func (c *c11Callee) Parse(lex *lexer.PeekingLexer) error {
	t := lex.Peek()
	if t.EOF() || t.Value == ";" || t.Value == "(" || t.Value == ")" || t.Value == "!" || t.Value == "=" {
		return participle.NextMatch
	}
	c.Name = lex.Next().Value
	cp := lex.MakeCheckpoint()
	if lex.Next().Value == "(" && lex.Next().Value == ")" {
		c.Call = true
		return nil
	}
	lex.LoadCheckpoint(cp) // not a call: un-read what was looked at
	return nil
}

// c11Tail reads everything from a "!" to the end of the input, calling Next() until it returns EOF.
type c11Tail struct {
	Words []string
}

func (t *c11Tail) Parse(lex *lexer.PeekingLexer) error {
	if lex.Peek().Value != "!" {
		return participle.NextMatch
	}
	lex.Next()
	for {
		tok := lex.Next()
		if tok.EOF() {
			return nil
		}
		t.Words = append(t.Words, tok.Value)
	}
}

// The position fields of c11Stmt carry struct tags of their own (an empty parser key next to a json key).
type c11Stmt struct {
	Pos    lexer.Position `parser:"" json:"-"`
	EndPos lexer.Position `parser:"" json:"end,omitempty"`
	Tokens []lexer.Token  `parser:"" json:"-"`

	Target *c11Callee `@@`
	Val    string     `( "=" @Ident )?` // an ordinary capture after the hand-written production
}

type c11Prog struct {
	Pos    lexer.Position
	EndPos lexer.Position
	Tokens []lexer.Token

	Stmts []*c11Stmt `( @@ ";" )*`
	Tail  *c11Tail   `@@?`
}

var c11PLex = lexer.MustSimple([]lexer.SimpleRule{
	{Name: "Comment", Pattern: `#[^\n]*`},
	{Name: "Ident", Pattern: `[a-zé]+`},
	{Name: "Punct", Pattern: `[;()!=]`},
	{Name: "Whitespace", Pattern: `\s+`},
})

func c11Parseable(c *mon.Child) {
	p, err := participle.Build[c11Prog](participle.Lexer(c11PLex), participle.Elide("Whitespace", "Comment"))
	if err != nil {
		c.Violation("", "parseable", "grammar with a checkpointing Parseable does not build: "+err.Error(), nil)
		return
	}
	r := c.RNG("parseable")
	sp := func() string { return r.Pick("", " ", "  ", "\n", " # c\n", "\t", "", " ") }
	for i := 0; i < c.N(1500, 20000); i++ {
		key := fmt.Sprintf("cp%d", i)
		if !c.Want(key) {
			continue
		}
		type ext struct{ from, start, end int } // where the node started (raw stream), its first token, end of its last consumed token
		var sb strings.Builder
		var want []ext
		var calls []bool
		from := 0
		sb.WriteString(sp())
		for n := r.Range(0, 5); n > 0; n-- {
			name := r.Pick("foo", "é", "bar", "x")
			e := ext{from: from, start: sb.Len()}
			sb.WriteString(name)
			e.end = sb.Len()
			call := r.Bool()
			if call {
				sb.WriteString(sp() + "(")
				sb.WriteString(sp() + ")")
				e.end = sb.Len()
			}
			if r.Intn(3) == 0 {
				sb.WriteString(sp() + "=" + sp() + r.Pick("v", "é"))
				e.end = sb.Len()
			}
			want = append(want, e)
			calls = append(calls, call)
			sb.WriteString(sp() + ";")
			from = sb.Len()
			sb.WriteString(sp())
		}
		lastEnd := from // end of the last token the parse consumes (0: nothing consumed)
		if r.Intn(3) == 0 {
			sb.WriteString("!")
			lastEnd = sb.Len()
			for n := r.Range(0, 3); n > 0; n-- {
				sb.WriteString(sp() + r.Pick("a", "(", ";", "é"))
				lastEnd = sb.Len()
			}
			sb.WriteString(sp())
		}
		in := sb.String()
		c.Begin(key, fmt.Sprintf("checkpointing Parseable <- %q", in))
		c.Eval(1)
		var prog *c11Prog
		var perr error
		if pn, pv, st := mon.Guard(func() { prog, perr = p.ParseString("", in) }); pn {
			c.Violation("", key, fmt.Sprintf("parse panicked (%s) at %s | input %q", pv, st, in), nil)
			c.End(key)
			continue
		}
		report := func(what string) {
			c.Violation("", key, fmt.Sprintf("%s | grammar: Prog = ( Stmt \";\" )* ; Stmt = Callee (Parseable: Ident, then \"(\" \")\" tried and un-read with LoadCheckpoint) | input %q", what, in), map[string]interface{}{"input": in})
		}
		switch {
		case perr != nil:
			report("valid program rejected: " + perr.Error())
		case len(prog.Stmts) != len(want):
			report(fmt.Sprintf("%d statements parsed, %d written", len(prog.Stmts), len(want)))
		default:
			for si, s := range prog.Stmts {
				w := want[si]
				if s.Target == nil || s.Target.Call != calls[si] {
					report(fmt.Sprintf("statement %d: call=%v expected %v", si, s.Target != nil && s.Target.Call, calls[si]))
					break
				}
				if s.Pos.Offset != w.start {
					report(fmt.Sprintf("statement %d: Pos offset %d, its first token is at %d", si, s.Pos.Offset, w.start))
					break
				}
				if s.EndPos.Offset != w.end {
					report(fmt.Sprintf("statement %d: EndPos offset %d, its last consumed token ends at %d", si, s.EndPos.Offset, w.end))
					break
				}
				if len(s.Tokens) == 0 {
					report(fmt.Sprintf("statement %d: empty token list", si))
					break
				}
				first, last := s.Tokens[0], s.Tokens[len(s.Tokens)-1]
				if first.Pos.Offset != w.from || last.Pos.Offset+len(last.Value) != w.end {
					report(fmt.Sprintf("statement %d: token list spans bytes %d..%d, the node started at %d and its last consumed token ends at %d", si, first.Pos.Offset, last.Pos.Offset+len(last.Value), w.from, w.end))
					break
				}
				at := w.from
				for _, t := range s.Tokens {
					if t.Pos.Offset != at || in[at:at+len(t.Value)] != t.Value {
						report(fmt.Sprintf("statement %d: token list is not a contiguous run of the input at byte %d", si, at))
						break
					}
					at += len(t.Value)
				}
			}
		}
		if perr == nil && prog != nil && lastEnd > 0 {
			// the root's run ends at the last token the parse consumed; EndPos is the position right after it
			if prog.EndPos.Offset != lastEnd {
				report(fmt.Sprintf("root: EndPos offset %d, the last consumed token ends at %d", prog.EndPos.Offset, lastEnd))
			} else if n := len(prog.Tokens); n == 0 || prog.Tokens[n-1].Pos.Offset+len(prog.Tokens[n-1].Value) != lastEnd {
				report(fmt.Sprintf("root: token list does not end with the last consumed token (which ends at byte %d)", lastEnd))
			}
		}
		if len(want) >= 2 {
			c.Nontrivial("cp:" + in)
			c.Feature("programs_with_checkpoint_backoff_checked")
		}
		c.End(key)
	}
}

// A production parsed by a ParseTypeWith function that ends by consuming an
// ELIDED token explicitly (a value's trailing comment, found with PeekAny and
// taken with FastForward): the enclosing node's run and EndPos include it.
type c11Note interface{ isC11Note() }
type c11NoteV struct {
	Word    string
	Comment string
}

func (c11NoteV) isC11Note() {}

type c11NoteStmt struct {
	Pos    lexer.Position
	EndPos lexer.Position
	Tokens []lexer.Token

	N c11Note `@@`
}

type c11NoteProg struct {
	Pos    lexer.Position
	EndPos lexer.Position
	Tokens []lexer.Token

	Notes []*c11NoteStmt `@@*`
}

var c11NLex = lexer.MustSimple([]lexer.SimpleRule{
	{Name: "Comment", Pattern: `#[^\n]*`},
	{Name: "Ident", Pattern: `[a-zé]+`},
	{Name: "At", Pattern: `@`},
	{Name: "Whitespace", Pattern: `\s+`},
})

func c11CustomNotes(c *mon.Child) {
	commentType := c11NLex.Symbols()["Comment"]
	parseNote := func(lex *lexer.PeekingLexer) (c11Note, error) {
		if lex.Peek().Value != "@" {
			return nil, participle.NextMatch
		}
		lex.Next()
		w := lex.Peek()
		if w.EOF() || w.Value == "@" {
			return nil, fmt.Errorf("expected a word after @")
		}
		lex.Next()
		n := c11NoteV{Word: w.Value}
		if tok, cur := lex.PeekAny(func(t lexer.Token) bool { return t.Type == commentType }); tok.Type == commentType {
			lex.FastForward(cur) // the trailing comment belongs to the note
			n.Comment = tok.Value
		}
		return n, nil
	}
	p, err := participle.Build[c11NoteProg](participle.Lexer(c11NLex), participle.Elide("Whitespace", "Comment"), participle.ParseTypeWith(parseNote))
	if err != nil {
		c.Violation("", "notes", "grammar with a ParseTypeWith production does not build: "+err.Error(), nil)
		return
	}
	r := c.RNG("notes")
	for i := 0; i < c.N(800, 8000); i++ {
		key := fmt.Sprintf("note%d", i)
		if !c.Want(key) {
			continue
		}
		type ext struct{ from, start, end int }
		var sb strings.Builder
		var want []ext
		sb.WriteString(r.Pick("", " ", "\n"))
		from := 0
		for n := r.Range(1, 4); n > 0; n-- {
			e := ext{from: from, start: sb.Len()}
			sb.WriteString("@" + r.Pick("", " ", "\n") + r.Pick("x", "foo", "é"))
			e.end = sb.Len()
			if r.Bool() {
				sb.WriteString(r.Pick("", " ", "  ") + "#" + r.Pick("one", "", " a b"))
				e.end = sb.Len()
				sb.WriteString("\n")
			} else {
				sb.WriteString(r.Pick(" ", "\n", "  "))
			}
			from = e.end
			want = append(want, e)
		}
		in := sb.String()
		c.Begin(key, fmt.Sprintf("ParseTypeWith production consuming its trailing comment <- %q", in))
		c.Eval(1)
		var prog *c11NoteProg
		var perr error
		if pn, pv, st := mon.Guard(func() { prog, perr = p.ParseString("", in) }); pn {
			c.Violation("", key, fmt.Sprintf("parse panicked (%s) at %s | input %q", pv, st, in), nil)
			c.End(key)
			continue
		}
		report := func(what string) {
			c.Violation("", key, fmt.Sprintf("%s | grammar: Prog = NoteStmt* ; NoteStmt = Note (ParseTypeWith: \"@\" word, then the trailing comment taken with PeekAny+FastForward) | input %q", what, in), map[string]interface{}{"input": in})
		}
		switch {
		case perr != nil:
			report("valid input rejected: " + perr.Error())
		case len(prog.Notes) != len(want):
			report(fmt.Sprintf("%d notes parsed, %d written", len(prog.Notes), len(want)))
		default:
			for si, s := range prog.Notes {
				w := want[si]
				if len(s.Tokens) == 0 {
					report(fmt.Sprintf("note %d: empty token list", si))
					break
				}
				first, last := s.Tokens[0], s.Tokens[len(s.Tokens)-1]
				if s.Pos.Offset != w.start {
					report(fmt.Sprintf("note %d: Pos offset %d, its first token is at %d", si, s.Pos.Offset, w.start))
					break
				}
				if s.EndPos.Offset != w.end {
					report(fmt.Sprintf("note %d: EndPos offset %d, its last consumed token (the trailing comment, if any) ends at %d", si, s.EndPos.Offset, w.end))
					break
				}
				if first.Pos.Offset != w.from || last.Pos.Offset+len(last.Value) != w.end {
					report(fmt.Sprintf("note %d: token list spans bytes %d..%d, the node started at %d and its last consumed token ends at %d", si, first.Pos.Offset, last.Pos.Offset+len(last.Value), w.from, w.end))
					break
				}
			}
		}
		c.Nontrivial("note:" + in)
		c.Feature("custom_productions_ending_in_an_explicitly_consumed_elided_token")
		c.End(key)
	}
}
