package props

import (
	"bytes"
	"encoding/json"
	"fmt"
	"os"
	"os/exec"
	"path/filepath"
	"reflect"
	"regexp"
	"regexp/syntax"
	"strconv"
	"strings"
	"sync"
	"time"

	"github.com/alecthomas/participle/v2/lexer"

	"verifharness/gram"
	"verifharness/lexgen"
	"verifharness/mon"
)

// C05: generated lexer code behaves exactly like the runtime lexer.

func c05MapFor(seed int64, batch, i int) *lexgen.GMap { return lexMapFor("C05", seed, batch, i) }

// lexMapFor deterministically generates the i-th rule map of a batch (parent and child call it alike).
func lexMapFor(id string, seed int64, batch, i int) *lexgen.GMap {
	if id == "C07" && batch == 0 && i >= 1 && i <= 3 {
		return c07GenMapFor(seed, batch, i)
	}
	if batch == 0 && i == 0 {
		// fixed definition with lexer-elided rules: driven with a very long run of elided tokens
		return &lexgen.GMap{States: []string{"Root"}, Rules: map[string][]lexgen.GRule{"Root": {
			{Name: "comment", Pattern: `#[^\n]*`}, {Name: "nl", Pattern: `\n`}, {Name: "Id", Pattern: `[a-z]+`}, {Name: "sp", Pattern: ` +`}}}}
	}
	r := mon.NewRNG(seed, id, batch, "map", i)
	return lexgen.GenMap(r, &lexgen.MapOpts{Supported: true, MaxStates: 1 + i%4, Elide: i%3 == 0, Plain: i%4 == 1, OddNames: id == "C05"})
}

func c05Count(tier string) int { return pick(tier, 120, 700) }

type c05GenFail struct {
	Index int    `json:"index"`
	What  string `json:"what"`
	Rules string `json:"rules"`
}

var c05LexDir = regexp.MustCompile(`lex(\d+)/`)

// c05Prepare builds cmd/participle from the working tree, runs `participle
// gen lexer` on every generated definition and compiles the emitted sources.
func c05Prepare(p *mon.Parent) (func(int) string, error) { return lexProgPrepare("C05", c05Count)(p) }

// lexProgPrepare returns the Prepare step shared by C05 and C04 (generated-lexer part).
func lexProgPrepare(id string, count func(tier string) int) func(p *mon.Parent) (func(int) string, error) {
	return func(p *mon.Parent) (func(int) string, error) { return lexProgPrepareRun(id, count, p) }
}

func lexProgPrepareRun(id string, count func(tier string) int, p *mon.Parent) (func(int) string, error) {
	env := append(os.Environ(), "GOFLAGS=-mod=mod", "GOPROXY=off", "GOSUMDB=off", "GOTOOLCHAIN=local")
	tool := filepath.Join(p.Scratch, "participle-gen")
	cmd := exec.Command("go", append(append([]string{"build"}, gram.CoverArgs("")...), "-o", tool, ".")...)
	cmd.Dir = gram.RepoDir() + "/cmd/participle"
	cmd.Env = env
	if out, err := cmd.CombinedOutput(); err != nil {
		return nil, fmt.Errorf("building cmd/participle failed: %v\n%s", err, out)
	}
	bins := make([]string, p.NBatch)
	errs := make([]error, p.NBatch)
	var wg sync.WaitGroup
	sem := make(chan struct{}, 8)
	for b := 0; b < p.NBatch; b++ {
		if !p.WantBatch(b) {
			continue
		}
		b := b
		wg.Add(1)
		go func() {
			defer wg.Done()
			sem <- struct{}{}
			defer func() { <-sem }()
			dir := filepath.Join(p.Scratch, fmt.Sprintf("prog%03d", b))
			if err := gram.EmitProgram(dir, nil, harnessDir()); err != nil {
				errs[b] = err
				return
			}
			var fails []c05GenFail
			var ok []int
			n := count(p.Tier)
			for i := 0; i < n; i++ {
				g := lexMapFor(id, p.Seed, b, i)
				def, err, panicked, _ := buildDef(g)
				if panicked || err != nil {
					continue
				}
				js, err := json.Marshal(def)
				if err != nil {
					fails = append(fails, c05GenFail{i, "json.Marshal(definition) failed: " + err.Error(), g.String()})
					continue
				}
				pkg := fmt.Sprintf("lex%d", i)
				gen := exec.Command(tool, "gen", "lexer", "--name", "Gen", pkg)
				gen.Stdin = bytes.NewReader(js)
				var stdout, stderr bytes.Buffer
				gen.Stdout, gen.Stderr = &stdout, &stderr
				if err := gen.Run(); err != nil {
					fails = append(fails, c05GenFail{i, fmt.Sprintf("`participle gen lexer` failed on a definition of the supported class: %v: %s", err, trunc(stderr.String(), 600)), g.String()})
					continue
				}
				os.MkdirAll(filepath.Join(dir, pkg), 0o755)
				os.WriteFile(filepath.Join(dir, pkg, "lexer.go"), stdout.Bytes(), 0o644)
				os.WriteFile(filepath.Join(dir, pkg, "zz.go"), []byte(fmt.Sprintf("package %s\n\nimport \"verifharness/lexgen\"\n\nfunc init() { lexgen.RegGenerated(%d, GenLexer) }\n", pkg, i)), 0o644)
				ok = append(ok, i)
			}
			// build; packages that do not compile are themselves refutations
			for attempt := 0; attempt < 4; attempt++ {
				var sb strings.Builder
				sb.WriteString("package main\n\nimport (\n")
				for _, i := range ok {
					fmt.Fprintf(&sb, "\t_ \"genprog/lex%d\"\n", i)
				}
				sb.WriteString(")\n")
				os.WriteFile(filepath.Join(dir, "lexers.go"), []byte(sb.String()), 0o644)
				bin, err := gram.BuildProgram(dir, false)
				if err == nil {
					bins[b] = bin
					break
				}
				bad := map[int]bool{}
				for _, m := range c05LexDir.FindAllStringSubmatch(err.Error(), -1) {
					n, _ := strconv.Atoi(m[1])
					bad[n] = true
				}
				if len(bad) == 0 || attempt == 3 {
					errs[b] = err
					return
				}
				var keep []int
				for _, i := range ok {
					if bad[i] {
						msg := ""
						for _, line := range strings.Split(err.Error(), "\n") {
							if strings.Contains(line, fmt.Sprintf("lex%d/", i)) {
								msg += line + "; "
							}
						}
						fails = append(fails, c05GenFail{i, "emitted Go source does not compile: " + trunc(msg, 600), lexMapFor(id, p.Seed, b, i).String()})
					} else {
						keep = append(keep, i)
					}
				}
				ok = keep
			}
			js, _ := json.Marshal(fails)
			os.WriteFile(filepath.Join(dir, "genfail.json"), js, 0o644)
		}()
	}
	wg.Wait()
	for b, err := range errs {
		if err != nil {
			return nil, fmt.Errorf("batch %d: %w", b, err)
		}
	}
	return func(b int) string { return bins[b] }, nil
}

// c05Verdict runs the PEG model next to Go's regexp along the runtime lexer's
// path through the input and decides up to which offset generated and runtime
// lexer must agree.
type c05Verdict struct {
	ToleratedAt int // -1: never; else offset from which a documented (possessive) difference may show
	HangRule    string
	HangAt      int
	BoundaryOps map[string]bool
}

type c05Rule struct {
	re   *regexp.Regexp
	tree *syntax.Regexp
	ops  map[string]bool
}

func c05Model(g *lexgen.GMap, rules map[string]*c05Rule, input string) c05Verdict {
	return c05ModelOpt(g, rules, input, true)
}

func c05ModelNoStop(g *lexgen.GMap, rules map[string]*c05Rule, input string) c05Verdict {
	return c05ModelOpt(g, rules, input, false)
}

func c05ModelOpt(g *lexgen.GMap, rules map[string]*c05Rule, input string, stopOnEmpty bool) c05Verdict {
	v := c05Verdict{ToleratedAt: -1, HangAt: -1, BoundaryOps: map[string]bool{}}
	stack := []string{"Root"}
	off := 0
	expanded := map[string][]lexgen.GRule{}
	for off < len(input) {
		st := stack[len(stack)-1]
		rs, okc := expanded[st]
		if !okc {
			rs = g.Expand(st)
			expanded[st] = rs
		}
		rest := input[off:]
		sel := -1
		selLen := 0
		returned := false
		for i, ru := range rs {
			if ru.Action == "return" {
				if len(stack) == 1 {
					return v
				}
				stack = stack[:len(stack)-1]
				returned = true
				break
			}
			cr := rules[ru.Name]
			if cr == nil {
				return v
			}
			pr := lexgen.PegMatch(cr.tree, rest)
			if pr.EmptyIteration && stopOnEmpty {
				v.HangRule, v.HangAt = ru.Name, off
				return v
			}
			rl := -1
			if loc := cr.re.FindStringIndex(rest); loc != nil {
				rl = loc[1]
			}
			if pr.End != rl {
				v.ToleratedAt = off
				return v
			}
			// boundary coverage: the decision was taken at the end of the input, on a multi-byte rune, or on an empty sub-match
			if rl >= 0 && (rl == len(rest) || rl == 0) || (rl < 0 && len(rest) < 4) {
				for op := range cr.ops {
					v.BoundaryOps[op] = true
				}
			}
			if rl > 0 && len(rest) > 0 && rest[0] >= 0x80 {
				for op := range cr.ops {
					v.BoundaryOps[op+"@multibyte"] = true
				}
			}
			if rl >= 0 {
				sel, selLen = i, rl
				break
			}
		}
		if returned {
			continue
		}
		if sel < 0 || selLen == 0 {
			return v
		}
		switch rs[sel].Action {
		case "push":
			stack = append(stack, rs[sel].Target)
		case "pop":
			if len(stack) == 1 {
				return v
			}
			stack = stack[:len(stack)-1]
		}
		off += selLen
	}
	return v
}

func c05Child(c *mon.Child) {
	// generator / compile failures recorded by the prepare step
	exe, _ := os.Executable()
	if b, err := os.ReadFile(filepath.Join(filepath.Dir(exe), "genfail.json")); err == nil {
		var fails []c05GenFail
		json.Unmarshal(b, &fails)
		for _, f := range fails {
			key := fmt.Sprintf("gen%d", f.Index)
			if c.Want(key) {
				c.Violation(c05FailClass(f.What), key, f.What+" | rules: "+trunc(f.Rules, 700), map[string]interface{}{"rules": f.Rules})
			}
		}
	}
	nInputs := c.N(80, 200)
	hangsConfirmed := 0
	for _, idx := range lexgen.GeneratedOrder {
		gen := lexgen.Generated[idx]
		g := c05MapFor(c.Seed, c.Batch, idx)
		def, err, _, _ := buildDef(g)
		if err != nil || def == nil {
			continue
		}
		c.Feature("generated_lexers_compiled")
		gdesc := trunc(g.String(), 700)
		keyM := fmt.Sprintf("m%d", idx)
		if !reflect.DeepEqual(def.Symbols(), gen.Symbols()) {
			if c.Want(keyM) {
				c.Violation("", keyM, fmt.Sprintf("generated lexer exposes a different symbol table: runtime %v, generated %v | rules: %s", def.Symbols(), gen.Symbols(), gdesc), map[string]interface{}{"rules": g})
			}
			continue
		}
		rules := map[string]*c05Rule{}
		okRules := true
		for _, rs := range g.Rules {
			for _, ru := range rs {
				if ru.Pattern == "" || rules[ru.Name] != nil {
					continue
				}
				tree, err := syntax.Parse(ru.Pattern, syntax.Perl)
				re, err2 := regexp.Compile(`\A(?:` + ru.Pattern + `)`)
				if err != nil || err2 != nil {
					okRules = false
					continue
				}
				cr := &c05Rule{re: re, tree: tree.Simplify(), ops: map[string]bool{}}
				lexgen.OpsOf(cr.tree, cr.ops)
				rules[ru.Name] = cr
			}
		}
		if !okRules {
			continue
		}
		names := symNames(def)
		r := c.RNG("inputs", idx)
		inputs := lexInputs(r, g, nInputs)
		if c.Batch == 0 && idx == 0 {
			inputs = append([]string{strings.Repeat("# c\n", 400000) + "x y", strings.Repeat("\n", 1000000), "a # c\nb  c\n"}, inputs[:10]...)
		}
		for k := 0; k+1 < len(inputs) && k < 16; k += 2 {
			if len(inputs[k]) > 5000 || len(inputs[k+1]) > 5000 {
				continue
			}
			key := fmt.Sprintf("m%d.pair%d", idx, k)
			if !c.Want(key) {
				continue
			}
			c.Begin(key, fmt.Sprintf("%s <- interleaved %q / %q", trunc(gdesc, 300), trunc(inputs[k], 100), trunc(inputs[k+1], 100)))
			c05Interleave(c, key, gen, names, inputs[k], inputs[k+1], gdesc)
			c.End(key)
		}
		for ii, in := range inputs {
			key := fmt.Sprintf("m%d.i%d", idx, ii)
			if !c.Want(key) {
				continue
			}
			c.Begin(key, fmt.Sprintf("%s <- %q", trunc(gdesc, 300), trunc(in, 300)))
			c.Eval(1)
			detail := func() interface{} { return map[string]interface{}{"rules": g, "input": trunc(in, 3000)} }
			v := c05Model(g, rules, in)
			if v.HangAt >= 0 {
				// The model found a repetition whose body can complete an iteration without
				// consuming: the one situation in which a "repeat until the body fails" loop has no
				// exit. Run the generated lexer on the side; only model prediction AND no return
				// together are a violation (DESIGN.md 3.4), the wall clock alone never is.
				c.Feature("inputs_with_empty_iteration_in_a_repetition")
				if hangsConfirmed >= 2 {
					// two non-returning runs were already reported in this batch; do not pile up spinning goroutines
					c.Feature("predicted_nonterminating_inputs_not_run_after_two_confirmed_hangs")
					c.End(key)
					continue
				}
				done := make(chan struct{})
				go func() {
					defer close(done)
					defer func() { recover() }()
					if lx, err := gen.(lexer.StringDefinition).LexString("", in); err == nil {
						lexAll(lx, names, len(in)+2)
					}
				}()
				select {
				case <-done:
				case <-time.After(5 * time.Second):
					hangsConfirmed++
					c.Violation("generated-matcher-loops-on-empty-iteration", key, fmt.Sprintf("generated matcher for rule %s does not terminate at offset %d: a repetition body completes an iteration without consuming and the emitted loop never exits (predicted by the PEG model, and the generated lexer did not return) | rules: %s | input: %q", v.HangRule, v.HangAt, gdesc, in), detail())
					c.End(key)
					continue
				}
				// it terminates: compare as usual (the model's verdict is recomputed without the stop)
				v = c05ModelNoStop(g, rules, in)
			}
			fname := []string{"g.txt", ""}[ii%2]
			lxR, _ := def.LexString(fname, in)
			real := lexAll(lxR, names, len(in)+2)
			var lxG lexer.Lexer
			var gerr error
			switch ii % 3 {
			case 0:
				lxG, gerr = gen.(lexer.StringDefinition).LexString(fname, in)
			case 1:
				lxG, gerr = gen.(lexer.BytesDefinition).LexBytes(fname, []byte(in))
			default:
				lxG, gerr = gen.Lex(fname, strings.NewReader(in))
			}
			if gerr != nil {
				c.Violation("", key, "generated definition's Lex* returned an error: "+gerr.Error(), detail())
				c.End(key)
				continue
			}
			got := lexAll(lxG, names, len(in)+2)
			limit := len(in) + 1
			if v.ToleratedAt >= 0 {
				limit = v.ToleratedAt
				c.Feature("inputs_in_the_tolerated_(possessive)_class")
			}
			diff := c05Compare(real, got, limit, v.ToleratedAt >= 0)
			if diff != "" {
				c.Violation(c05DiffClass(g, rules, real, got, in), key, fmt.Sprintf("%s | rules: %s | input: %q", diff, gdesc, trunc(in, 400)), detail())
			} else if v.ToleratedAt < 0 && got.EOF != nil {
				// the generated lexer's own output also has to satisfy C04's oracle and C07's monitors
				var toks []lexer.Token
				for _, t := range got.Toks {
					toks = append(toks, t.Tok)
				}
				toks = append(toks, *got.EOF)
				if d := c04Oracle(toks, in, fname, !g.HasElided()); d != "" {
					c.Violation("", key, "generated lexer output violates the position/value oracle: "+d+" | rules: "+gdesc+fmt.Sprintf(" | input: %q", trunc(in, 400)), detail())
				}
				for k := 0; k < 2; k++ {
					var t lexer.Token
					var e error
					if p, pv, _ := mon.Guard(func() { t, e = lxG.Next() }); p || e != nil || t.Type != lexer.EOF || t.Pos != got.EOF.Pos {
						c.Violation("", key, fmt.Sprintf("generated lexer: Next after EOF gave %#v, %v, panic=%v %s | rules: %s", t, e, p, pv, gdesc), detail())
						break
					}
				}
				c.Feature("generated_outputs_checked_by_position_oracle")
			}
			if len(v.BoundaryOps) >= 2 {
				c.Nontrivial(g.String() + "\x00" + in)
				for op := range v.BoundaryOps {
					c.Feature("boundary_decision_by_" + op)
				}
				if ii%31 == 0 {
					c.Sample(map[string]interface{}{"rules": trunc(g.String(), 300), "input": in, "tokens": len(real.Toks), "boundary_ops": len(v.BoundaryOps)})
				}
			}
			c.End(key)
		}
	}
}

// c05Interleave advances two lexers made from the same generated definition
// alternately and compares each stream with the same input lexed on its own:
// lexers of one definition must not share state.
func c05Interleave(c *mon.Child, key string, gen lexer.Definition, names map[lexer.TokenType]string, a, b string, gdesc string) {
	lexInterleave(c, key, "generated", gen, names, a, b, gdesc)
}

// lexInterleave advances two lexers of one definition alternately; each must
// produce what it produces when its input is lexed alone.
func lexInterleave(c *mon.Child, key, kind string, gen lexer.Definition, names map[lexer.TokenType]string, a, b string, gdesc string) {
	step := func(lx lexer.Lexer, out *realLex) bool {
		if out.EOF != nil || out.Err != nil || out.Panicked || len(out.Toks) > len(a)+len(b)+4 {
			return false
		}
		var t lexer.Token
		var err error
		if p, pv, st := mon.Guard(func() { t, err = lx.Next() }); p {
			out.Panicked, out.PanicVal, out.Stack = true, pv, st
			return false
		}
		if err != nil {
			out.Err = err
			return false
		}
		if t.Type == lexer.EOF {
			tt := t
			out.EOF = &tt
			return false
		}
		out.Toks = append(out.Toks, realTok{Name: names[t.Type], Tok: t})
		return true
	}
	seq := func(in string) *realLex {
		lx, _ := gen.(lexer.StringDefinition).LexString("i", in)
		return lexAll(lx, names, len(in)+2)
	}
	wantA, wantB := seq(a), seq(b)
	la, _ := gen.(lexer.StringDefinition).LexString("i", a)
	lb, _ := gen.(lexer.StringDefinition).LexString("i", b)
	gotA, gotB := &realLex{}, &realLex{}
	for moreA, moreB := true, true; moreA || moreB; {
		if moreA {
			moreA = step(la, gotA)
		}
		if moreB {
			moreB = step(lb, gotB)
		}
	}
	c.Eval(1)
	for i, pair := range [][2]*realLex{{wantA, gotA}, {wantB, gotB}} {
		if d := c05Compare(pair[0], pair[1], 1<<30, false); d != "" {
			c.Violation("", key, fmt.Sprintf("two lexers of one "+kind+" definition advanced alternately: lexer %d differs from the same input lexed alone (%s) | rules: %s | inputs: %q and %q", i, d, gdesc, trunc(a, 200), trunc(b, 200)),
				map[string]interface{}{"input_a": a, "input_b": b})
			return
		}
	}
	c.Feature("interleaved_lexer_pairs_of_one_generated_definition")
}

func c05FailClass(what string) string { return "" }

// c05Compare compares the streams up to (excluding) tokens starting at or after limit.
func c05Compare(real, got *realLex, limit int, tolerated bool) string {
	for i, rt := range real.Toks {
		if rt.Tok.Pos.Offset+len(rt.Tok.Value) > limit && tolerated {
			return ""
		}
		if i >= len(got.Toks) {
			if got.Panicked {
				return fmt.Sprintf("generated lexer panicked (%s) after %d tokens at %s; runtime lexer continues with %s %q @%d", got.PanicVal, len(got.Toks), got.Stack, rt.Name, rt.Tok.Value, rt.Tok.Pos.Offset)
			}
			if got.Err != nil {
				return fmt.Sprintf("generated lexer stopped with %q after %d tokens; runtime lexer continues with %s %q @%d", got.Err.Error(), len(got.Toks), rt.Name, rt.Tok.Value, rt.Tok.Pos.Offset)
			}
			return fmt.Sprintf("generated lexer reported EOF after %d tokens; runtime lexer continues with %s %q @%d", len(got.Toks), rt.Name, rt.Tok.Value, rt.Tok.Pos.Offset)
		}
		gt := got.Toks[i]
		if gt.Tok != rt.Tok {
			return fmt.Sprintf("token #%d: generated %s %#v, runtime %s %#v", i, gt.Name, gt.Tok, rt.Name, rt.Tok)
		}
	}
	if tolerated {
		return ""
	}
	if len(got.Toks) > len(real.Toks) {
		gt := got.Toks[len(real.Toks)]
		end := "EOF"
		if real.Err != nil {
			end = "error " + real.Err.Error()
		}
		return fmt.Sprintf("generated lexer emitted extra token %s %q @%d where the runtime lexer has %s", gt.Name, gt.Tok.Value, gt.Tok.Pos.Offset, end)
	}
	if got.Panicked {
		return fmt.Sprintf("generated lexer panicked (%s) at %s after %d tokens; runtime lexer: err=%v", got.PanicVal, got.Stack, len(got.Toks), real.Err)
	}
	switch {
	case real.Err == nil && got.Err != nil:
		return fmt.Sprintf("generated lexer fails with %q; runtime lexer reaches EOF", got.Err.Error())
	case real.Err != nil && got.Err == nil:
		return fmt.Sprintf("generated lexer reaches EOF; runtime lexer fails with %q", real.Err.Error())
	case real.Err != nil:
		ro, rp, _ := errOffset(real.Err)
		gofs, gp, ok := errOffset(got.Err)
		if !ok {
			return fmt.Sprintf("generated lexer's error %q carries no position", got.Err.Error())
		}
		if ro != gofs || rp != gp {
			return fmt.Sprintf("error position differs: generated %v (%q), runtime %v (%q)", gp, got.Err.Error(), rp, real.Err.Error())
		}
	default:
		if real.EOF != nil && got.EOF != nil && *real.EOF != *got.EOF {
			return fmt.Sprintf("EOF token differs: generated %#v, runtime %#v", *got.EOF, *real.EOF)
		}
	}
	return ""
}

// c05DiffClass attributes a discrepancy to a catalogued generator defect when
// its precise signature matches; "" otherwise.
func c05DiffClass(g *lexgen.GMap, rules map[string]*c05Rule, real, got *realLex, in string) string {
	return ""
}

func init() {
	Register(&mon.Spec{
		ID:          "C05",
		Rule:        "case = (generated rule map of the generator's documented supported class: literals incl. multi-byte and metacharacters, classes, ., (?s:.), anchors and word boundaries, captures, * + ? {n,m}, alternation, (?i:), multi-state Push/Pop/Return/Include, lower-case rules; input walked from the map then damaged, or soup). cmd/participle is built from the working tree, `participle gen lexer` is run on json.Marshal(definition), the emitted sources are compiled (generator failure or non-compiling output is a violation), Symbols() compared, and on every input the generated lexer's tokens (type, value, full position, EOF) or error position must equal lexer.New(rules)'s, through LexString/LexBytes/Lex. Tolerance is decided by a PEG model of possessive matching run next to Go's regexp along the runtime lexer's path: from the first rule/offset where possessive and backtracking match lengths differ, comparison stops (counted as tolerated); a repetition body able to complete an empty iteration is reported as non-terminating without running the generated code. Generated output also passes C04's position oracle and the EOF-idempotence monitor. Non-trivial: >=2 distinct regex operators decided a match at a boundary (end of input, empty sub-match, multi-byte start). Distinct by (rule map, input).",
		Assumptions: []string{"trusted: Go's regexp/syntax Simplify (used by generator and model alike) and the 150-line PEG interpreter", "back-references and non-greedy operators are outside the documented class and are not generated; rules that can match the empty string are excluded on the generated regex tree"},
		Batches:     func(t string) int { return pick(t, 4, 16) },
		Floor:       func(t string) int { return pick(t, 500, 8000) },
		TimeoutSec:  func(t string) int { return pick(t, 300, 3600) },
		Prepare:     c05Prepare,
		Child:       c05Child,
	})
}
