package props

import (
	"bytes"
	"encoding/json"
	"fmt"
	"os"
	"os/exec"
	"path/filepath"
	"sort"
	"strings"
	"sync"
	"sync/atomic"
	"text/scanner"
	"unicode"

	"github.com/alecthomas/participle/v2"
	"github.com/alecthomas/participle/v2/ebnf"
	"github.com/alecthomas/participle/v2/lexer"

	"verifharness/gram"
	"verifharness/lexgen"
	"verifharness/mon"
)

// C09: parsers and lexer definitions are safe for concurrent and repeated use.
// Built with the race detector; every concurrent call's result is compared
// with the result of the same call on a fresh instance used in isolation.

func c09Opts(r *mon.RNG, i int) *gram.GenOpts {
	prof := []int{gram.ProfStateful, gram.ProfDefault, gram.ProfLower}[i%3]
	return &gram.GenOpts{Profile: prof, MaxProds: 4, Budget: 10 + r.Intn(10), Depth: 2 + r.Intn(2), TokKinds: true, Unions: true,
		SharePrefix: 5, CaptureBias: 5, SubBias: 3, AllowBang: true, ForcePos: i%2 == 0}
}

type c09Op struct {
	obj  string
	name string
	run  func() string // on the shared instance
	want string        // from a fresh instance in isolation
}

func canonResult(v interface{}, err error, rr *realResult) string {
	if rr.Panicked {
		return "PANIC " + rr.PanicVal
	}
	es := ""
	if rr.Err != nil {
		es = rr.Err.Error()
	}
	return rr.AST.Canon(true) + " | " + es
}

func toksCanon(ts []lexer.Token, err error) string {
	var sb strings.Builder
	for _, t := range ts {
		fmt.Fprintf(&sb, "%d:%q@%d:%d:%d ", t.Type, t.Value, t.Pos.Offset, t.Pos.Line, t.Pos.Column)
	}
	if err != nil {
		sb.WriteString("| " + err.Error())
	}
	return sb.String()
}

func heredocRules() lexer.Rules {
	return lexer.Rules{
		"Root": {
			{Name: "Heredoc", Pattern: `<<([A-Za-z.*+]+)\n`, Action: lexer.Push("Heredoc")},
			{Name: "Bare", Pattern: `<<<\n`, Action: lexer.Push("Heredoc")}, // enters the state without the group \1 needs
			{Name: "Ident", Pattern: `[a-z]+`},
			{Name: "WS", Pattern: `\s+`},
		},
		"Heredoc": {
			{Name: "End", Pattern: `\1\n`, Action: lexer.Pop()},
			{Name: "Line", Pattern: `[^\n]*\n`},
		},
	}
}

// quoteRules closes a string with \0: "the same quote that opened it". The
// whole match (group 0) is the only thing that distinguishes the cache keys.
func quoteRules() lexer.Rules {
	return lexer.Rules{
		"Root": {
			{Name: "Open", Pattern: `["'` + "`" + `]`, Action: lexer.Push("Str")},
			{Name: "Ident", Pattern: `[a-z]+`},
			{Name: "WS", Pattern: `\s+`},
		},
		"Str": {
			{Name: "Close", Pattern: `\0`, Action: lexer.Pop()},
			{Name: "Char", Pattern: `[^\n]`},
		},
	}
}

func quoteInput(r *mon.RNG) string {
	var sb strings.Builder
	for i := r.Range(1, 4); i > 0; i-- {
		q := r.Pick(`"`, `'`, "`")
		body := r.Pick("it's", `say "hi"`, "a`b", "x", "", `'"`)
		body = strings.ReplaceAll(body, q, "")
		sb.WriteString(q + body + q + " w ")
	}
	return sb.String()
}

func heredocInput(r *mon.RNG) string {
	delims := []string{"EOF", "END", "A", "B.", "C*", "D+", "EOT", "X", "Y", "ZZ", "a.b", "Q*Q"}
	var sb strings.Builder
	for i := r.Range(1, 4); i > 0; i-- {
		d := delims[r.Intn(len(delims))] + fmt.Sprint(r.Intn(40))[:1]
		d = strings.TrimRight(d, "0123456789")
		if d == "" {
			d = "E"
		}
		// make the number of distinct delimiters large: vary length
		d += strings.Repeat("x", r.Intn(5))
		sb.WriteString("pre <<" + d + "\n")
		for j := r.Range(0, 3); j > 0; j-- {
			sb.WriteString("body " + d + " not alone\n")
		}
		sb.WriteString(d + "\n")
	}
	return sb.String()
}

// Generated lexers in C09: a push/pop definition and the stateful profile's
// rules (upper- and lower-case elided names) are run through `participle gen
// lexer` at check time and compiled into the child. Back-reference rules are
// outside the generator's documented class (README, "Known limitations").
const (
	c09GenInterp = 9001
	c09GenP2     = 9002
	c09GenP1     = 9003
)

func c09GenRules(idx int) lexer.Rules {
	switch idx {
	case c09GenInterp: // push/pop states and a lexer-elided rule; no back-references (the generator does not support them)
		return lexer.Rules{
			"Root": {
				{Name: "String", Pattern: `"`, Action: lexer.Push("Str")},
				{Name: "Ident", Pattern: `[a-z]+`},
				{Name: "ws", Pattern: `\s+`},
			},
			"Str": {
				{Name: "Escaped", Pattern: `\\.`},
				{Name: "Open", Pattern: `\$\{`, Action: lexer.Push("Expr")},
				{Name: "Char", Pattern: `[^"$\\]+`},
				{Name: "Dollar", Pattern: `\$`},
				{Name: "End", Pattern: `"`, Action: lexer.Pop()},
			},
			"Expr": {
				{Name: "Close", Pattern: `\}`, Action: lexer.Pop()},
				lexer.Include("Root"),
			},
		}
	}
	var rs []lexer.Rule
	for _, sr := range gram.P1Rules(idx == c09GenP2) {
		rs = append(rs, lexer.Rule{Name: sr.Name, Pattern: sr.Pattern})
	}
	return lexer.Rules{"Root": rs}
}

func interpInput(r *mon.RNG) string {
	var sb strings.Builder
	for i := r.Range(1, 10); i > 0; i-- {
		sb.WriteString(r.Pick(`"`, `"`, "${", "}", "ab", " ", "\n", "\"", "$", "x y", "\n", `"a${b "c"}d"`, "é"))
	}
	return sb.String()
}

// c09EmitGenLexers generates and adds the lexers to the program in dir.
func c09EmitGenLexers(dir string) error {
	env := append(os.Environ(), "GOFLAGS=-mod=mod", "GOPROXY=off", "GOSUMDB=off", "GOTOOLCHAIN=local")
	tool := filepath.Join(dir, "participle-gen")
	cmd := exec.Command("go", append(append([]string{"build"}, gram.CoverArgs("")...), "-o", tool, ".")...)
	cmd.Dir = gram.RepoDir() + "/cmd/participle"
	cmd.Env = env
	if out, err := cmd.CombinedOutput(); err != nil {
		return fmt.Errorf("building cmd/participle failed: %v\n%s", err, out)
	}
	defer os.Remove(tool)
	var imports bytes.Buffer
	imports.WriteString("package main\n\nimport (\n")
	for _, idx := range []int{c09GenInterp, c09GenP2, c09GenP1} {
		def, err := lexer.New(c09GenRules(idx))
		if err != nil {
			return fmt.Errorf("C09 definition %d does not build: %v", idx, err)
		}
		js, err := json.Marshal(def)
		if err != nil {
			return err
		}
		pkg := fmt.Sprintf("c09lex%d", idx)
		gen := exec.Command(tool, "gen", "lexer", "--name", "Gen", pkg)
		gen.Stdin = bytes.NewReader(js)
		var stdout, stderr bytes.Buffer
		gen.Stdout, gen.Stderr = &stdout, &stderr
		if err := gen.Run(); err != nil {
			return fmt.Errorf("`participle gen lexer` failed on C09 definition %d: %v: %s", idx, err, trunc(stderr.String(), 600))
		}
		os.MkdirAll(filepath.Join(dir, pkg), 0o755)
		os.WriteFile(filepath.Join(dir, pkg, "lexer.go"), stdout.Bytes(), 0o644)
		os.WriteFile(filepath.Join(dir, pkg, "zz.go"), []byte(fmt.Sprintf("package %s\n\nimport \"verifharness/lexgen\"\n\nfunc init() { lexgen.RegGenerated(%d, GenLexer) }\n", pkg, idx)), 0o644)
		fmt.Fprintf(&imports, "\t_ \"genprog/%s\"\n", pkg)
	}
	imports.WriteString(")\n")
	return os.WriteFile(filepath.Join(dir, "c09lexers.go"), imports.Bytes(), 0o644)
}

// namedCanon renders a token stream with type names, so streams of a runtime
// and a generated definition of the same rules can be compared.
func namedCanon(sym map[string]lexer.TokenType, ts []lexer.Token, err error) string {
	names := map[lexer.TokenType]string{}
	for n, t := range sym {
		names[t] = n
	}
	var sb strings.Builder
	for _, t := range ts {
		fmt.Fprintf(&sb, "%s:%q@%d:%d:%d ", names[t.Type], t.Value, t.Pos.Offset, t.Pos.Line, t.Pos.Column)
	}
	if err != nil {
		// generated and runtime lexers word their errors differently; the position is what they share
		if le, ok := err.(interface{ Position() lexer.Position }); ok {
			p := le.Position()
			fmt.Fprintf(&sb, "| error at %d:%d:%d", p.Offset, p.Line, p.Column)
		} else {
			sb.WriteString("| " + err.Error())
		}
	}
	return sb.String()
}

// lexVia lexes in through one of the definition's three entry points.
func lexVia(def lexer.Definition, which int, in string) (string, bool) {
	var got string
	pn, pv, _ := mon.Guard(func() {
		var lx lexer.Lexer
		var err error
		switch {
		case which%3 == 1:
			if sd, ok := def.(lexer.StringDefinition); ok {
				lx, err = sd.LexString("h", in)
				break
			}
			fallthrough
		case which%3 == 2:
			if bd, ok := def.(lexer.BytesDefinition); ok {
				lx, err = bd.LexBytes("h", []byte(in))
				break
			}
			fallthrough
		default:
			lx, err = def.Lex("h", strings.NewReader(in))
		}
		if err != nil {
			got = "| " + err.Error()
			return
		}
		ts, err := lexer.ConsumeAll(lx)
		got = namedCanon(def.Symbols(), ts, err)
	})
	if pn {
		return "PANIC " + pv, true
	}
	return got, false
}

// c09Isolated asks a fresh process what the generated definition idx answers
// for in when nothing else has ever used it: the "fresh instance used in
// isolation" of the statement for an object that exists once per process.
func c09Isolated(c *mon.Child, idx, which int, in string) (string, error) {
	f, err := os.CreateTemp("", "c09iso")
	if err != nil {
		return "", err
	}
	defer os.Remove(f.Name())
	defer os.Remove(f.Name() + ".out")
	js, _ := json.Marshal(map[string]interface{}{"idx": idx, "which": which, "in": in})
	f.Write(js)
	f.Close()
	cmd := exec.Command(os.Args[0], "child", "C09", c.Tier, fmt.Sprint(c.Seed), fmt.Sprint(c.Batch), fmt.Sprint(c.NBatch), f.Name()+".res")
	cmd.Env = append(os.Environ(), "VERIF_C09_ISO="+f.Name())
	out, err := cmd.CombinedOutput()
	os.Remove(f.Name() + ".res")
	os.Remove(f.Name() + ".res.journal")
	if err != nil {
		return "", fmt.Errorf("isolated process failed: %v: %s", err, trunc(string(out), 300))
	}
	b, err := os.ReadFile(f.Name() + ".out")
	return string(b), err
}

func c09IsoMain(path string) {
	b, err := os.ReadFile(path)
	if err != nil {
		os.Exit(2)
	}
	var q struct {
		Idx, Which int
		In         string
	}
	if json.Unmarshal(b, &q) != nil {
		os.Exit(2)
	}
	def := lexgen.Generated[q.Idx]
	if def == nil {
		os.Exit(2)
	}
	got, _ := lexVia(def, q.Which, q.In)
	os.WriteFile(path+".out", []byte(got), 0o644)
}

func p1Input(r *mon.RNG) string {
	terms := gram.Terminals(gram.ProfStateful)
	var toks []string
	for i := r.Range(0, 14); i > 0; i-- {
		toks = append(toks, terms[r.Intn(len(terms))].Text)
	}
	s := gram.Render(gram.ProfStateful, toks, r.Intn(6), r)
	if r.Intn(5) == 0 {
		s += r.Pick("@", "é", "$ x", "\x00")
	}
	return s
}

type c09Interval struct {
	obj        string
	g          int
	call, retn int64
}

func c09Child(c *mon.Child) {
	if f := os.Getenv("VERIF_C09_ISO"); f != "" {
		c09IsoMain(f)
		return
	}
	goroutines := c.N(16, 64)
	rounds := c.N(30, 300)
	opsPerG := c.N(30, 40)
	r := c.RNG("ops")

	// ---- objects and operations
	var ops []c09Op
	// (1) generated grammars: shared parser + fresh parser for expectations
	nGram := 0
	for gi, h := range gram.Registry {
		if nGram >= c.N(24, 60) {
			break
		}
		g, err := gram.ParseGrammar(h.IR)
		if err != nil {
			continue
		}
		mk := func() gram.Built {
			opts := append([]participle.Option{}, gram.LexerOptions(g.Profile)...)
			opts = append(opts, participle.UseLookahead([]int{1, 3, participle.MaxLookahead}[gi%3]))
			b, err := h.Build(opts...)
			if err != nil {
				return nil
			}
			return b
		}
		shared, fresh := mk(), mk()
		if shared == nil || fresh == nil {
			continue
		}
		nGram++
		smp := gram.NewSampler(g, r.Fork("in", h.ID))
		sym := fresh.Lexer().Symbols()
		gp := &gparsers{g: g, h: h, sym: sym, elided: gram.ElidedNames(g.Profile)}
		for ii, toks := range smp.Inputs(10) {
			text := gram.Render(g.Profile, toks, ii%5, r.Fork("render", h.ID, ii))
			var L []lexer.Token
			mon.Guard(func() { L, _ = fresh.Lex("", strings.NewReader(text)) })
			if L == nil || !affordableK(c, gp, L, []int{[]int{1, 3, participle.MaxLookahead}[gi%3]}) {
				continue
			}
			obj := "parser:" + h.ID
			mkParse := func(b gram.Built, which int) func() string {
				return func() string {
					rr := realParse(func() (interface{}, error) {
						switch which {
						case 0:
							return b.ParseString("f", text)
						case 1:
							return b.ParseBytes("f", []byte(text))
						case 3:
							lx, err := b.Lexer().Lex("f", strings.NewReader(text))
							if err != nil {
								return nil, err
							}
							pl, err := lexer.Upgrade(lx, elidedTypes(b.Lexer(), gp.elided)...)
							if err != nil {
								return nil, err
							}
							return b.ParseFromLexer(pl)
						default:
							return b.Parse("f", strings.NewReader(text))
						}
					})
					return canonResult(nil, nil, &rr)
				}
			}
			for which, nm := range []string{"ParseString", "ParseBytes", "Parse", "ParseFromLexer"} {
				if (ii+which)%2 == 0 {
					ops = append(ops, c09Op{obj: obj, name: nm, run: mkParse(shared, which), want: mkParse(fresh, which)()})
				}
			}
			if ii%4 == 1 {
				// per-call options must not outlive the call: the same text with a tail, leniently and strictly
				tail := text + " ) x ("
				mkOpt := func(b gram.Built, lenient bool) func() string {
					return func() string {
						rr := realParse(func() (interface{}, error) {
							if lenient {
								return b.ParseString("f", tail, participle.AllowTrailing(true))
							}
							return b.ParseString("f", tail)
						})
						return canonResult(nil, nil, &rr)
					}
				}
				var Lt []lexer.Token
				mon.Guard(func() { Lt, _ = fresh.Lex("", strings.NewReader(tail)) })
				if Lt != nil && affordableK(c, gp, Lt, []int{[]int{1, 3, participle.MaxLookahead}[gi%3]}) {
					ops = append(ops,
						c09Op{obj: obj, name: "ParseString(AllowTrailing)", run: mkOpt(shared, true), want: mkOpt(fresh, true)()},
						c09Op{obj: obj, name: "ParseString(strict, trailing text)", run: mkOpt(shared, false), want: mkOpt(fresh, false)()})
				}
			}
			if ii%3 == 0 {
				ops = append(ops, c09Op{obj: obj, name: "Lex", run: func() string { return toksCanon(shared.Lex("f", strings.NewReader(text))) }, want: toksCanon(fresh.Lex("f", strings.NewReader(text)))})
			}
		}
		ops = append(ops, c09Op{obj: "parser:" + h.ID, name: "String", run: func() string { return shared.String() }, want: fresh.String()})
		// a parser for another production, derived from the shared one, must leave the shared one as it was
		subStr := func(b gram.Built) string {
			s, ok, err := b.SubString()
			return fmt.Sprintf("%v|%v|%s", ok, err, s)
		}
		if _, ok, _ := fresh.SubString(); ok {
			ops = append(ops, c09Op{obj: "parser:" + h.ID, name: "ParserForProduction+String", run: func() string { return subStr(shared) }, want: subStr(fresh)})
		}
	}
	// (2) the package-level EBNF parser (no fresh instance exists: the expectation is its first, isolated answer)
	for _, src := range []string{`A = "a" B* | (?= "x") ~"y" C? .` + "\n" + `B = <ident> ("," <ident>)+ .` + "\n" + `C = (A | B)! .`, `X = "unterminated`, `Y = Y "a" | "b" .`, ``} {
		src := src
		f := func() string {
			e, err := ebnf.ParseString(src)
			s := ""
			if e != nil {
				func() {
					defer func() { recover() }()
					s = e.String()
				}()
			}
			return fmt.Sprintf("%s | %v", s, err)
		}
		ops = append(ops, c09Op{obj: "ebnf-package-parser", name: "ebnf.ParseString", run: f, want: f()})
	}
	// (3) example grammars (package-level parsers)
	for _, ex := range gram.Examples {
		ex := ex
		corpus := c06Corpus(ex.Name)
		for i := 0; i < 4; i++ {
			input := c06Mutate(r, corpus)
			if i < len(corpus) && len(corpus[i]) < 3000 {
				input = corpus[i]
			}
			if len(input) > 3000 {
				input = input[:3000]
			}
			f := func() string {
				rr := realParse(func() (interface{}, error) { return ex.Parser.ParseString("e", input) })
				if ex.UserCode && rr.Panicked {
					return "user-code-panic"
				}
				return canonResult(nil, nil, &rr)
			}
			ops = append(ops, c09Op{obj: "example:" + ex.Name, name: "ParseString", run: f, want: f()})
		}
	}
	// (4) a text/scanner definition configured with its own identifier rule, next to the default one
	// (defined last: every expectation above was computed before it was ever used)
	mkCfg := func() lexer.Definition {
		return lexer.NewTextScannerLexer(func(s *scanner.Scanner) {
			s.IsIdentRune = func(ch rune, i int) bool {
				return ch == '.' || ch == '_' || unicode.IsLetter(ch) || (i > 0 && unicode.IsDigit(ch))
			}
			s.Mode &^= scanner.ScanFloats
		})
	}
	cfgInputs := []string{"os.Args x.y z", "a.b.c 1.5 d", "", "x . y"}
	for _, in := range cfgInputs {
		in := in
		w, _ := lexVia(lexer.TextScannerLexer, 0, in)
		ops = append(ops, c09Op{obj: "default-text-scanner-definition", name: "Lex", run: func() string { s, _ := lexVia(lexer.TextScannerLexer, 0, in); return s }, want: w})
	}
	sharedCfg := mkCfg()
	for _, in := range cfgInputs {
		in := in
		w, _ := lexVia(mkCfg(), 0, in)
		ops = append(ops, c09Op{obj: "configured-text-scanner-definition", name: "Lex", run: func() string { s, _ := lexVia(sharedCfg, 0, in); return s }, want: w})
	}
	c.FeatureN("operations_defined", int64(len(ops)))
	c.FeatureN("shared_generated_parsers", int64(nGram))

	// ---- concurrent rounds
	var clock int64
	mismatches := 0
	var intervalsAll []c09Interval
	cacheKeysUnderOverlap := map[string]bool{}
	for round := 0; round < rounds; round++ {
		key := fmt.Sprintf("round%d", round)
		if !c.Want(key) {
			continue
		}
		c.Begin(key, fmt.Sprintf("%d goroutines x %d operations + shared back-reference definition", goroutines, opsPerG))
		// a fresh back-reference definition per round: first use of every cache key happens under contention
		sharedDef, err1 := lexer.New(heredocRules())
		freshDef, err2 := lexer.New(heredocRules())
		if err1 != nil || err2 != nil {
			c.Violation("", key, fmt.Sprintf("heredoc definition does not build: %v %v", err1, err2), nil)
			c.End(key)
			return
		}
		hr := c.RNG("heredoc", round)
		type hcase struct {
			in, want string
			def      lexer.Definition
			obj      string
			gen      int // index of the generated definition, 0 for runtime definitions
			which    int
		}
		var hcases []hcase
		for i := 0; i < 12; i++ {
			in := heredocInput(hr)
			if i%4 == 3 {
				in += "x <<<\nbody\n" // a back-reference to a group the entering rule did not capture: an error, every time
			}
			lx, _ := freshDef.LexString("h", in)
			hcases = append(hcases, hcase{in: in, want: toksCanon(lexer.ConsumeAll(lx)), def: sharedDef, obj: "backref-definition"})
		}
		// a second shared definition whose back-reference is \0; every expectation comes from its own fresh definition
		sharedQ, errq := lexer.New(quoteRules())
		if errq != nil {
			c.Violation("", key, "quote definition does not build: "+errq.Error(), nil)
			c.End(key)
			return
		}
		for i := 0; i < 8; i++ {
			in := quoteInput(hr)
			fq, _ := lexer.New(quoteRules())
			lx, _ := fq.LexString("h", in)
			hcases = append(hcases, hcase{in: in, want: toksCanon(lexer.ConsumeAll(lx)), def: sharedQ, obj: "backref-definition"})
		}
		// generated definitions (one instance per process): new delimiters every round keep their package-level
		// caches being written under contention; the expectation is a fresh runtime definition of the same rules
		if len(lexgen.Generated) > 0 && (c.Tier != "thorough" || round%3 == 0) {
			for i := 0; i < 18; i++ {
				idx := []int{c09GenInterp, c09GenP2, c09GenP1}[i%3]
				gdef := lexgen.Generated[idx]
				if gdef == nil {
					continue
				}
				var in string
				if idx == c09GenInterp {
					in = interpInput(hr)
				} else {
					in = p1Input(hr)
				}
				fresh, err := lexer.New(c09GenRules(idx))
				if err != nil {
					continue
				}
				want, _ := lexVia(fresh, i/3, in)
				hcases = append(hcases, hcase{in: in, want: want, def: gdef, obj: fmt.Sprintf("generated-definition-%d", idx), gen: idx, which: i / 3})
			}
		}
		type genMismatch struct {
			hc  hcase
			got string
		}
		type gres struct {
			bad       []string
			genBad    []genMismatch
			intervals []c09Interval
			n         int
		}
		results := make([]gres, goroutines)
		var wg sync.WaitGroup
		start := make(chan struct{})
		for g := 0; g < goroutines; g++ {
			g := g
			gr := c.RNG("sched", round, g)
			wg.Add(1)
			go func() {
				defer wg.Done()
				res := &results[g]
				<-start
				// all goroutines first-use the round's back-reference definition together
				for i := 0; i < len(hcases); i++ {
					hc := hcases[(i+g)%len(hcases)]
					t0 := atomic.AddInt64(&clock, 1)
					var got string
					if hc.gen != 0 {
						got, _ = lexVia(hc.def, hc.which, hc.in)
					} else if pn, pv, _ := mon.Guard(func() {
						lx, _ := hc.def.(lexer.StringDefinition).LexString("h", hc.in)
						got = toksCanon(lexer.ConsumeAll(lx))
					}); pn {
						got = "PANIC " + pv
					}
					t1 := atomic.AddInt64(&clock, 1)
					res.intervals = append(res.intervals, c09Interval{hc.obj, g, t0, t1})
					res.n++
					if hc.gen != 0 {
						if got != hc.want {
							res.genBad = append(res.genBad, genMismatch{hc, got})
						}
						continue
					}
					if got != hc.want {
						res.bad = append(res.bad, fmt.Sprintf("shared back-reference definition, LexString(%q): concurrent %s, isolated %s", hc.in, trunc(got, 300), trunc(hc.want, 300)))
					}
				}
				for i := 0; i < opsPerG; i++ {
					op := &ops[gr.Intn(len(ops))]
					t0 := atomic.AddInt64(&clock, 1)
					got := op.run()
					t1 := atomic.AddInt64(&clock, 1)
					res.intervals = append(res.intervals, c09Interval{op.obj, g, t0, t1})
					res.n++
					if got != op.want {
						res.bad = append(res.bad, fmt.Sprintf("%s.%s: concurrent result differs from the fresh-instance result: %s vs %s", op.obj, op.name, trunc(got, 300), trunc(op.want, 300)))
					}
				}
			}()
		}
		close(start)
		wg.Wait()
		for g := range results {
			c.Eval(results[g].n)
			for _, b := range results[g].bad {
				mismatches++
				c.Violation("", key, b, map[string]interface{}{"round": round})
			}
			intervalsAll = append(intervalsAll, results[g].intervals...)
		}
		// a generated definition that answered differently from the runtime definition: ask a fresh process
		// what that generated definition says in isolation. Only a difference from THAT is C09's business.
		seenGen := map[string]bool{}
		for g := range results {
			for _, gm := range results[g].genBad {
				k := fmt.Sprint(gm.hc.gen, gm.hc.which, gm.hc.in, gm.got)
				if seenGen[k] || len(seenGen) >= 6 {
					continue
				}
				seenGen[k] = true
				iso, err := c09Isolated(c, gm.hc.gen, gm.hc.which, gm.hc.in)
				switch {
				case err != nil:
					c.Inconclusive("isolated process for a generated-lexer mismatch failed: " + err.Error())
				case iso == gm.got:
					c.Feature("generated_definition_differs_from_runtime_also_in_isolation_(C05_matter,_not_judged_here)")
					c.Sample(map[string]interface{}{"generated_vs_runtime": gm.hc.in, "generated": trunc(gm.got, 400), "runtime": trunc(gm.hc.want, 400), "definition": gm.hc.gen})
				default:
					mismatches++
					c.Violation("", key, fmt.Sprintf("generated definition %d (%s), input %q: under concurrent/repeated use it returned %s; a fresh process lexing only this input returns %s", gm.hc.gen, gm.hc.obj, gm.hc.in, trunc(gm.got, 300), trunc(iso, 300)), map[string]interface{}{"round": round})
				}
			}
		}
		for _, hc := range hcases {
			cacheKeysUnderOverlap[hc.in] = true
			if hc.gen != 0 {
				c.Feature("generated_definition_inputs_lexed_concurrently")
				// history independence of the generated definition, sequentially
				if got, _ := lexVia(hc.def, hc.which+1, hc.in); got != hc.want {
					if iso, err := c09Isolated(c, hc.gen, hc.which+1, hc.in); err == nil && iso != got {
						c.Violation("", key, fmt.Sprintf("generated definition %d, input %q: after earlier use it returns %s; a fresh process returns %s", hc.gen, hc.in, trunc(got, 300), trunc(iso, 300)), nil)
					}
				}
				c.Eval(1)
			}
		}
		// history independence, sequentially: after all that, the shared instances still answer like fresh ones
		for i := 0; i < 20; i++ {
			op := &ops[c.RNG("seq", round, i).Intn(len(ops))]
			if got := op.run(); got != op.want {
				c.Violation("", key, fmt.Sprintf("%s.%s after %d earlier calls differs from the fresh-instance result: %s vs %s", op.obj, op.name, round*goroutines*opsPerG, trunc(got, 300), trunc(op.want, 300)), nil)
			}
			c.Eval(1)
		}
		c.End(key)
		if len(intervalsAll) > 400000 {
			c09CountOverlaps(c, intervalsAll)
			intervalsAll = intervalsAll[:0]
		}
	}
	c09CountOverlaps(c, intervalsAll)
	c.FeatureN("heredoc_inputs_first_lexed_under_contention", int64(len(cacheKeysUnderOverlap)))
	c.Sample(map[string]interface{}{"goroutines": goroutines, "rounds": rounds, "operations_per_goroutine": opsPerG, "distinct_operations": len(ops), "objects": "generated parsers, ebnf package parser, example parsers, per-round back-reference definition"})
}

// c09CountOverlaps counts pairs of operations on the same object, from
// different goroutines, whose call/return intervals overlap.
func c09CountOverlaps(c *mon.Child, iv []c09Interval) {
	by := map[string][]c09Interval{}
	for _, x := range iv {
		by[x.obj] = append(by[x.obj], x)
	}
	var pairs int64
	for obj, xs := range by {
		sort.Slice(xs, func(i, j int) bool { return xs[i].call < xs[j].call })
		objPairs := int64(0)
		for i := range xs {
			for j := i + 1; j < len(xs) && xs[j].call < xs[i].retn; j++ {
				if xs[j].g != xs[i].g {
					objPairs++
				}
			}
		}
		pairs += objPairs
		if objPairs > 0 {
			c.Nontrivial("overlap:" + obj)
		}
	}
	c.FeatureN("overlapping_operation_pairs_on_the_same_object", pairs)
	c.FeatureN("operations_stamped", int64(len(iv)))
}

func init() {
	Register(&mon.Spec{
		ID:          "C09",
		Rule:        "case = round: 16 (thorough 64) goroutines released by a barrier first lex 12 heredoc inputs with many distinct delimiters on one fresh back-reference definition (every compiled-pattern cache key is first used under contention), then each performs 30-40 randomly ordered ParseString/ParseBytes/Parse/Lex/String calls on shared generated-grammar parsers, ebnf.ParseString on the package-level EBNF parser, and ParseString on the example grammars' package-level parsers. The same goroutines lex fresh inputs on three lexer definitions emitted by `participle gen lexer` at check time (push/pop states with lexer-elided rules; the stateful profile with upper- and lower-case elided names; one instance per process), expectation = a fresh runtime definition of the same rules compared by symbol name and error position, and a disagreement is only reported when a fresh process lexing just that input with the generated definition answers differently from the concurrent call; ParseFromLexer over Upgrade(Lexer().Lex()) is among the parser operations; a text/scanner definition configured with its own IsIdentRune is used next to the default one. Every result (normalised AST incl. positions + error text, or token list) is compared with the same call on a fresh instance built and used in isolation before the concurrent phase; after each round 20 sequential calls re-check history independence. The binary is built with -race; every 'WARNING: DATA RACE' block in the GORACE logs is a violation. Non-trivial: an object on which operations of different goroutines overlapped in time (stamped from one atomic counter); distinct by object.",
		Assumptions: []string{"race reports can only appear if a race exists; absence of reports is evidence for the interleavings executed only", "for package-level parsers (ebnf, examples) no fresh instance can be made: the expectation is the parser's own first isolated answer", "monitor tables are per goroutine and merged after wg.Wait()"},
		Batches:     func(t string) int { return pick(t, 2, 5) },
		Floor:       func(t string) int { return pick(t, 10, 20) },
		TimeoutSec:  func(t string) int { return pick(t, 1200, 3600) },
		Race:        true,
		Prepare: gramPrepareEx("C09", func(t string) int { return pick(t, 30, 70) }, c09Opts, nil, true, func(dir string) error {
			if _, err := gram.EmitExamples(dir, c06Examples); err != nil {
				return err
			}
			return c09EmitGenLexers(dir)
		}),
		Child: c09Child,
	})
}

// elidedTypes maps elided type names to the definition's token types.
func elidedTypes(def lexer.Definition, names []string) []lexer.TokenType {
	sym := def.Symbols()
	var out []lexer.TokenType
	for _, n := range names {
		if t, ok := sym[n]; ok {
			out = append(out, t)
		}
	}
	return out
}
