package props

import (
	"fmt"
	"strings"

	"github.com/alecthomas/participle/v2"
	"github.com/alecthomas/participle/v2/lexer"

	"verifharness/mon"
)

// C13 with a nested parser: an alternative of the outer grammar is an interface
// type parsed by a ParseTypeWith function that hands the caller's lexer to
// another parser's ParseFromLexer. The metamorphic oracle needs no model: a
// parse that succeeds with lookahead k must succeed identically with every
// larger lookahead (outer and inner parser use the same k).

type c13Value interface{ isC13Value() }

type c13Path struct {
	Y string `  @Ident "." "x" "." "y"`
	Z string `| @Ident "." "x" "." "z"`
	W string `| @Ident "." "w"`
}

func (*c13Path) isC13Value() {}

type c13Stmt struct {
	Value c13Value `  @@ ";"`
	Raw   []string `| @( Ident | "." )+ ";"`
	Num   string   `| @Int`
}

type c13Prog struct {
	Stmts []*c13Stmt `@@*`
}

// c13Long: "a"+ @"x" | "a"+ @"y" on more than MaxLookahead tokens: an explicit lookahead larger than the
// input succeeds, so must the unlimited (negative) one, which is larger than any number.
type c13Long struct {
	X string `  "a"+ @"x"`
	Y string `| "a"+ @"y"`
}

func c13LongLookahead(c *mon.Child) {
	key := "long-lookahead"
	if !c.Want(key) {
		return
	}
	n := participle.MaxLookahead + 1
	in := strings.Repeat("a ", n) + "y"
	c.Begin(key, fmt.Sprintf("\"a\"+ @\"x\" | \"a\"+ @\"y\" <- %d tokens", n+1))
	defer c.End(key)
	ks := []int{2 * n, participle.MaxLookahead, -1, -7}
	firstOK := -1
	for i, k := range ks {
		p, err := participle.Build[c13Long](participle.UseLookahead(k))
		if err != nil {
			c.Violation("", key, "long-lookahead grammar does not build: "+err.Error(), nil)
			return
		}
		c.Eval(1)
		var v *c13Long
		var perr error
		if pn, pv, _ := mon.Guard(func() { v, perr = p.ParseString("", in) }); pn {
			c.Violation("", key, "parse panicked: "+pv, nil)
			return
		}
		ok := perr == nil && v != nil && v.Y == "y" && v.X == ""
		if ok && firstOK < 0 {
			firstOK = i
		}
		// order of "size": MaxLookahead < 2n < unlimited (negative)
		if k < 0 && !ok {
			if firstOK >= 0 {
				c.Violation("", key, fmt.Sprintf("parses with lookahead=%d but fails with the unlimited lookahead=%d (%v) | grammar: \"a\"+ @\"x\" | \"a\"+ @\"y\" | input: %d x \"a\" then \"y\"", ks[firstOK], k, perr, n), nil)
			}
		}
	}
	if firstOK >= 0 {
		c.Nontrivial("long-lookahead")
		c.Feature("inputs_needing_more_than_MaxLookahead_tokens_of_lookahead")
	}
}

func c13Nested(c *mon.Child) {
	type built struct {
		k int
		p *participle.Parser[c13Prog]
	}
	var ps []built
	for _, k := range allKs {
		inner, err := participle.Build[c13Path](participle.UseLookahead(k))
		if err != nil {
			c.Violation("", "nested", "inner grammar does not build: "+err.Error(), nil)
			return
		}
		outer, err := participle.Build[c13Prog](participle.UseLookahead(k),
			participle.ParseTypeWith(func(lex *lexer.PeekingLexer) (c13Value, error) {
				v, err := inner.ParseFromLexer(lex, participle.AllowTrailing(true))
				if err != nil {
					return nil, err
				}
				return v, nil
			}))
		if err != nil {
			c.Violation("", "nested", "outer grammar does not build: "+err.Error(), nil)
			return
		}
		ps = append(ps, built{k, outer})
	}
	stmts := []string{"n.x.y;", "n.x.z;", "n.w;", "n.x.q;", "n.x;", "n;", "a.b.c;", "7", "n.x.z", "n . x . z ;", ".;", "n.x.y.z;"}
	r := c.RNG("nested")
	for i := 0; i < c.N(400, 4000); i++ {
		key := fmt.Sprintf("nested%d", i)
		if !c.Want(key) {
			continue
		}
		var sb strings.Builder
		for n := r.Range(1, 3); n > 0; n-- {
			sb.WriteString(stmts[r.Intn(len(stmts))] + r.Pick(" ", "", "\n"))
		}
		in := sb.String()
		c.Begin(key, fmt.Sprintf("nested parser behind ParseTypeWith <- %q", in))
		firstOK := -1
		var firstCanon string
		for pi, b := range ps {
			c.Eval(1)
			var v *c13Prog
			var err error
			if pn, pv, st := mon.Guard(func() { v, err = b.p.ParseString("", in) }); pn {
				c.Feature("parse_panicked_(see_C06)")
				_, _ = pv, st
				firstOK = -2
				break
			}
			canon := ""
			if err == nil {
				for _, s := range v.Stmts {
					canon += fmt.Sprintf("{%#v %q %q}", s.Value, s.Raw, s.Num)
				}
			}
			if firstOK < 0 {
				if err == nil {
					firstOK, firstCanon = pi, canon
				}
				continue
			}
			what := ""
			if err != nil {
				what = fmt.Sprintf("parses with lookahead=%s but fails with the larger lookahead=%s (%v)", kName(ps[firstOK].k), kName(b.k), err)
			} else if canon != firstCanon {
				what = fmt.Sprintf("AST under lookahead=%s differs from AST under lookahead=%s: %s vs %s", kName(ps[firstOK].k), kName(b.k), trunc(firstCanon, 300), trunc(canon, 300))
			}
			if what != "" {
				c.Violation("", key, what+" | grammar: Prog = Stmt* ; Stmt = Value \";\" | (Ident|\".\")+ \";\" | Int ; Value parsed by ParseTypeWith -> inner.ParseFromLexer(Path = Ident \".\" \"x\" \".\" \"y\" | ... \"z\" | Ident \".\" \"w\") | input: "+fmt.Sprintf("%q", in), map[string]interface{}{"input": in})
				break
			}
		}
		if firstOK > 0 {
			c.Nontrivial("nested:" + in)
			c.Feature("nested_parser_inputs_first_accepted_at_a_lookahead_above_the_smallest")
		}
		c.End(key)
	}
}
