package props

import (
	"fmt"
	"strings"

	"github.com/alecthomas/participle/v2/lexer"

	"verifharness/mon"
	"verifharness/peekmodel"
)

// C12: PeekingLexer cursors stay consistent under any sequence of operations.

// Token type values: negative ones as the library's own lexers hand out, and
// (c12SetTypes) zero and positive ones as a custom lexer with rune-valued types would.
var (
	tA lexer.TokenType = -2 // elided
	tB lexer.TokenType = -3 // elided
	tC lexer.TokenType = -4 // plain
	tD lexer.TokenType = -5 // plain
)

var c12Kinds = []lexer.TokenType{tA, tB, tC, tD}
var c12KindName = map[lexer.TokenType]string{tA: "a", tB: "b", tC: "C", tD: "D", lexer.EOF: "$"}

// c12SetTypes chooses the numeric values of the four token types.
func c12SetTypes(which int) {
	switch which % 3 {
	case 1:
		tA, tB, tC, tD = 0, 'b', -2, 'D'
	case 2:
		tA, tB, tC, tD = 7, -2, 0, -9
	default:
		tA, tB, tC, tD = -2, -3, -4, -5
	}
	c12Kinds = []lexer.TokenType{tA, tB, tC, tD}
	c12KindName = map[lexer.TokenType]string{tA: "a", tB: "b", tC: "C", tD: "D", lexer.EOF: "$"}
}

type sliceLexer struct {
	toks []lexer.Token
	i    int
}

func (s *sliceLexer) Next() (lexer.Token, error) {
	if s.i >= len(s.toks) {
		return s.toks[len(s.toks)-1], nil
	}
	t := s.toks[s.i]
	s.i++
	return t, nil
}

func c12Stream(kinds []lexer.TokenType, vals []string) []lexer.Token {
	toks := make([]lexer.Token, 0, len(kinds)+1)
	for i, k := range kinds {
		v := "v"
		if vals != nil {
			v = vals[i]
		}
		toks = append(toks, lexer.Token{Type: k, Value: v, Pos: lexer.Position{Offset: i, Line: 1, Column: i + 1}})
	}
	toks = append(toks, lexer.EOFToken(lexer.Position{Offset: len(kinds), Line: 1, Column: len(kinds) + 1}))
	return toks
}

var c12Preds = []func(lexer.Token) bool{
	func(t lexer.Token) bool { return false },
	func(t lexer.Token) bool { return t.Type == tA },
	func(t lexer.Token) bool { return t.Value == "x" },
	func(t lexer.Token) bool { return t.Type == tB || t.Type == tD },
}

const (
	opPeek = iota
	opNext
	opRawPeek
	opPeekAny0
	opPeekAny1
	opFF
	opSave
	opLoad
	opRange
	// random mode only
	opPeekAny2
	opPeekAny3
	opFFStale
	opLoadOld
	c12NumOps
)

var c12OpNames = []string{"Peek", "Next", "RawPeek", "PeekAny(never)", "PeekAny(typeA)", "FastForward(last)", "Save", "Load(last)", "Range(saved,raw)", "PeekAny(val=x)", "PeekAny(B|D)", "FastForward(stale)", "Load(older)"}

type c12Run struct {
	pl      *lexer.PeekingLexer
	m       *peekmodel.Model
	cursors []int // cursors returned by PeekAny so far
	cps     []lexer.Checkpoint
	snaps   []peekmodel.Snapshot
	moved   bool
	usedFF  bool
	usedLd  bool
}

// c12ElideEOF also puts the EOF type into the elision set (EOF is never elided: the stream always ends there).
var c12ElideEOF bool

func c12New(toks []lexer.Token) (*c12Run, string) {
	var pl *lexer.PeekingLexer
	var err error
	el := []lexer.TokenType{tA, tB}
	if c12ElideEOF {
		el = append(el, lexer.EOF)
	}
	if p, v, st := mon.Guard(func() { pl, err = lexer.Upgrade(&sliceLexer{toks: toks}, el...) }); p {
		return nil, "Upgrade panicked: " + v + " " + st
	}
	if err != nil {
		return nil, "Upgrade error: " + err.Error()
	}
	m := &peekmodel.Model{Toks: toks, Elide: map[lexer.TokenType]bool{tA: true, tB: true}}
	return &c12Run{pl: pl, m: m}, ""
}

// observe compares every observable; returns a description of the first difference.
func (r *c12Run) observe() string {
	var diff string
	p, v, st := mon.Guard(func() {
		if got, want := *r.pl.Peek(), r.m.Peek(); got != want {
			diff = fmt.Sprintf("Peek()=%#v model=%#v", got, want)
			return
		}
		if got, want := *r.pl.RawPeek(), r.m.RawPeek(); got != want {
			diff = fmt.Sprintf("RawPeek()=%#v model=%#v", got, want)
			return
		}
		if got, want := r.pl.Cursor(), r.m.Cursor(); got != want {
			diff = fmt.Sprintf("Cursor()=%d model=%d", got, want)
			return
		}
		if got, want := int(r.pl.RawCursor()), r.m.Raw; got != want {
			diff = fmt.Sprintf("RawCursor()=%d model=%d", got, want)
			return
		}
		for i, pr := range c12Preds {
			gt, gc := r.pl.PeekAny(pr)
			wt, wc := r.m.PeekAny(pr)
			if gt != wt || int(gc) != wc {
				diff = fmt.Sprintf("PeekAny(pred%d)=(%#v,%d) model=(%#v,%d)", i, gt, gc, wt, wc)
				return
			}
		}
	})
	if p {
		return "observation panicked (read outside the stream?): " + v + " " + st
	}
	return diff
}

func (r *c12Run) apply(op int, rng *mon.RNG) string {
	var diff string
	p, v, st := mon.Guard(func() {
		switch op {
		case opPeek:
			if got, want := *r.pl.Peek(), r.m.Peek(); got != want {
				diff = fmt.Sprintf("Peek()=%#v model=%#v", got, want)
			}
		case opNext:
			before := r.m.Raw
			got, want := *r.pl.Next(), r.m.Next()
			if got != want {
				diff = fmt.Sprintf("Next()=%#v model=%#v", got, want)
			}
			if r.m.Raw != before {
				r.moved = true
			}
		case opRawPeek:
			if got, want := *r.pl.RawPeek(), r.m.RawPeek(); got != want {
				diff = fmt.Sprintf("RawPeek()=%#v model=%#v", got, want)
			}
		case opPeekAny0, opPeekAny1, opPeekAny2, opPeekAny3:
			pi := map[int]int{opPeekAny0: 0, opPeekAny1: 1, opPeekAny2: 2, opPeekAny3: 3}[op]
			gt, gc := r.pl.PeekAny(c12Preds[pi])
			wt, wc := r.m.PeekAny(c12Preds[pi])
			if gt != wt || int(gc) != wc {
				diff = fmt.Sprintf("PeekAny=(%#v,%d) model=(%#v,%d)", gt, gc, wt, wc)
			}
			r.cursors = append(r.cursors, wc)
		case opFF, opFFStale:
			if len(r.cursors) == 0 {
				_, wc := r.m.PeekAny(c12Preds[0])
				r.cursors = append(r.cursors, wc)
			}
			c := r.cursors[len(r.cursors)-1]
			if op == opFFStale && rng != nil {
				c = r.cursors[rng.Intn(len(r.cursors))]
			}
			before := r.m.Raw
			r.pl.FastForward(lexer.RawCursor(c))
			r.m.FastForward(c)
			if r.m.Raw != before {
				r.moved = true
			}
			r.usedFF = true
		case opSave:
			r.cps = append(r.cps, r.pl.MakeCheckpoint())
			r.snaps = append(r.snaps, r.m.Save())
		case opLoad, opLoadOld:
			if len(r.cps) == 0 {
				return
			}
			i := len(r.cps) - 1
			if op == opLoadOld && rng != nil {
				i = rng.Intn(len(r.cps))
			}
			if r.snaps[i].Raw != r.m.Raw {
				r.usedLd = true
			}
			r.pl.LoadCheckpoint(r.cps[i])
			r.m.Load(r.snaps[i])
		case opRange:
			a := 0
			if len(r.snaps) > 0 {
				a = r.snaps[len(r.snaps)-1].Raw
			}
			b := r.m.Raw
			if a > b {
				a, b = b, a
			}
			got := r.pl.Range(lexer.RawCursor(a), lexer.RawCursor(b))
			want := r.m.Toks[a:b]
			if len(got) != len(want) {
				diff = fmt.Sprintf("Range(%d,%d) has %d tokens, model %d", a, b, len(got), len(want))
				return
			}
			for i := range got {
				if got[i] != want[i] {
					diff = fmt.Sprintf("Range(%d,%d)[%d]=%#v model=%#v", a, b, i, got[i], want[i])
					return
				}
			}
		}
	})
	if p {
		return "operation panicked (read outside the stream?): " + v + " " + st
	}
	return diff
}

func c12StreamString(toks []lexer.Token) string {
	var sb strings.Builder
	for _, t := range toks {
		sb.WriteString(c12KindName[t.Type])
		if t.Value == "x" {
			sb.WriteString("x")
		}
	}
	return sb.String()
}

func c12HistString(h []int) string {
	s := make([]string, len(h))
	for i, o := range h {
		s[i] = c12OpNames[o]
	}
	return strings.Join(s, ",")
}

// c12Case runs one (stream, history) pair and returns "" or the violation text.
func c12Case(c *mon.Child, toks []lexer.Token, hist []int, rng *mon.RNG, enumerated bool) {
	c.Eval(1)
	r, bad := c12New(toks)
	key := c12StreamString(toks) + "/" + fmt.Sprint(hist)
	if bad != "" {
		c.Violation("", key, bad, map[string]interface{}{"stream": c12StreamString(toks)})
		return
	}
	if d := r.observe(); d != "" {
		c.Violation("", key, "after Upgrade: "+d, map[string]interface{}{"stream": c12StreamString(toks)})
		return
	}
	for i, op := range hist {
		d := r.apply(op, rng)
		if d == "" {
			d = r.observe()
		}
		if d != "" {
			c.Violation("", key, fmt.Sprintf("stream %s, after history [%s]: %s", c12StreamString(toks), c12HistString(hist[:i+1]), d),
				map[string]interface{}{"stream": c12StreamString(toks), "history": c12HistString(hist[:i+1]), "difference": d})
			return
		}
	}
	hasElided := false
	for _, t := range toks {
		if t.Type == tA || t.Type == tB {
			hasElided = true
		}
	}
	if hasElided && r.moved && (r.usedFF || r.usedLd) {
		if enumerated {
			c.NontrivialEnumerated(1)
		} else if !(c.Thorough() && len(toks) <= 5 && len(hist) <= 5) {
			// (in the thorough tier such small cases are covered, and counted, by the enumeration)
			c.Nontrivial(key)
		}
		if r.usedFF {
			c.Feature("histories_with_fastforward_over_elided_stream")
		}
		if r.usedLd {
			c.Feature("histories_with_checkpoint_restore_after_move")
		}
		c.Sample(map[string]interface{}{"stream": c12StreamString(toks), "history": c12HistString(hist)})
	}
}

func c12Child(c *mon.Child) {
	// Part 1 (both tiers): random streams and histories.
	nRandom := c.N(20000, 60000)
	rng := c.RNG("random")
	for i := 0; i < nRandom; i++ {
		c12SetTypes(i / 7)
		if i/7%3 != 0 {
			c.Feature("cases_with_zero_or_positive_token_type_values")
		}
		n := rng.Intn(13)
		kinds := make([]lexer.TokenType, n)
		vals := make([]string, n)
		style := rng.Intn(4)
		for j := range kinds {
			switch style {
			case 0: // mostly elided
				kinds[j] = c12Kinds[rng.Weighted(4, 4, 1, 1)]
			case 1: // all elided
				kinds[j] = c12Kinds[rng.Intn(2)]
			default:
				kinds[j] = c12Kinds[rng.Intn(4)]
			}
			vals[j] = rng.Pick("v", "x", "w")
		}
		toks := c12Stream(kinds, vals)
		hl := rng.Range(1, 40)
		hist := make([]int, hl)
		for j := range hist {
			hist[j] = rng.Intn(c12NumOps)
		}
		key := fmt.Sprintf("r%d", i)
		if !c.Want(key) {
			continue
		}
		c.Begin(key, c12StreamString(toks)+" "+c12HistString(hist))
		c12ElideEOF = i%5 == 4
		if c12ElideEOF {
			c.Feature("cases_with_EOF_type_in_the_elision_set")
		}
		c12Case(c, toks, hist, rng.Fork(i), false)
		c12ElideEOF = false
		c.End(key)
	}
	c12SetTypes(0)
	if !c.Thorough() {
		return
	}
	// Part 2 (thorough): exhaustive small scope. Streams of length <= 4 over
	// {elided A, elided B, plain C, plain D}, histories of length <= 5 over
	// the first 9 operation kinds. Streams are split across batches.
	idx := 0
	for n := 0; n <= 4; n++ {
		total := 1
		for i := 0; i < n; i++ {
			total *= 4
		}
		for s := 0; s < total; s++ {
			idx++
			if idx%c.NBatch != c.Batch {
				continue
			}
			kinds := make([]lexer.TokenType, n)
			x := s
			for j := 0; j < n; j++ {
				kinds[j] = c12Kinds[x%4]
				x /= 4
			}
			toks := c12Stream(kinds, nil)
			key := "x" + c12StreamString(toks)
			if !c.Want(key) {
				continue
			}
			c.Begin(key, "exhaustive histories on stream "+c12StreamString(toks))
			for hl := 1; hl <= 5; hl++ {
				ht := 1
				for i := 0; i < hl; i++ {
					ht *= 9
				}
				hist := make([]int, hl)
				for h := 0; h < ht; h++ {
					y := h
					for j := 0; j < hl; j++ {
						hist[j] = y % 9
						y /= 9
					}
					c12Case(c, toks, hist, nil, true)
				}
			}
			c.End(key)
			c.Feature("streams_enumerated_exhaustively")
		}
	}
	c.Note("exhaustive_scope", "all streams of length<=4 over {elidedA,elidedB,plainC,plainD} x all histories of length<=5 over 9 operation kinds (Peek,Next,RawPeek,PeekAny(never),PeekAny(typeA),FastForward(last),Save,Load(last),Range); the random part is not exhaustive")
}

func init() {
	Register(&mon.Spec{
		ID:   "C12",
		Rule: "case = (token stream over 2 elided + 2 plain types, operation history); after every operation Peek/RawPeek/Cursor/RawCursor/PeekAny under 4 predicates are compared with the explicit model. Non-trivial: the stream contains an elided token, the cursor moved, and the history used FastForward or restored a checkpoint taken at another position. Distinct by (stream, history).",
		Assumptions: []string{
			"the model (peekmodel) is the property's sentences turned into code; FastForward is only called with cursors that PeekAny returned earlier in the same history (possibly stale)",
			"Range is only called with cursor pairs observed in the history (a<=b)",
		},
		Batches:    func(t string) int { return pick(t, 1, 16) },
		Floor:      func(t string) int { return pick(t, 2000, 100000) },
		TimeoutSec: func(t string) int { return pick(t, 120, 1800) },
		Child:      c12Child,
	})
}
