package props

import (
	"strings"

	"github.com/alecthomas/participle/v2"
	"github.com/alecthomas/participle/v2/ebnf"

	"verifharness/mon"
)

// Two parsers over the same root type with different Union member lists: each
// String() describes its own grammar.

type c14U interface{ isC14U() }
type c14A struct {
	X string `@Ident`
}
type c14B struct {
	N string `@Int "%"`
}
type c14Root struct {
	V []c14U `@@*`
}

func (c14A) isC14U() {}
func (c14B) isC14U() {}

func c14Static(c *mon.Child) {
	key := "static-two-parsers"
	if !c.Want(key) {
		return
	}
	c.Begin(key, "two parsers over one root type with different union members")
	defer c.End(key)
	p1, err1 := participle.Build[c14Root](participle.Union[c14U](c14A{}))
	p2, err2 := participle.Build[c14Root](participle.Union[c14U](c14A{}, c14B{}))
	if err1 != nil || err2 != nil {
		c.Violation("", key, "static union grammars do not build: "+errText(err1)+" / "+errText(err2), nil)
		return
	}
	prods := func(s string) (map[string]bool, error) {
		e, err := ebnf.ParseString(s)
		if err != nil {
			return nil, err
		}
		out := map[string]bool{}
		for _, p := range e.Productions {
			out[p.Production] = true
		}
		return out, nil
	}
	var s1, s2, s1again string
	if pn, pv, _ := mon.Guard(func() { s1 = p1.String(); s2 = p2.String(); s1again = p1.String() }); pn {
		c.Violation("", key, "Parser.String() panicked: "+pv, nil)
		return
	}
	c.Eval(3)
	d1, e1 := prods(s1)
	d2, e2 := prods(s2)
	switch {
	case e1 != nil || e2 != nil:
		c.Violation("", key, "the ebnf package cannot parse Parser.String(): "+errText(e1)+" / "+errText(e2), nil)
	case d1["C14B"] || !d1["C14A"]:
		c.Violation("", key, "String() of the parser built with Union(A) does not describe that grammar: "+trunc(s1, 300), nil)
	case !d2["C14B"] || !d2["C14A"] || !strings.Contains(s2, `"%"`):
		c.Violation("", key, "String() of the parser built with Union(A, B) lacks production C14B or its literal (a second parser over the same root type): "+trunc(s2, 300), nil)
	case s1 != s1again:
		c.Violation("", key, "String() of the first parser changed after the second parser was printed: "+trunc(s1, 200)+" vs "+trunc(s1again, 200), nil)
	}
	c.Nontrivial("static:two-parsers")
	c.Feature("parsers_over_one_root_type_with_different_unions")
}
