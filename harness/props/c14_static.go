package props

import (
	"fmt"
	"strings"

	"github.com/alecthomas/participle/v2"
	"github.com/alecthomas/participle/v2/ebnf"
	"github.com/alecthomas/participle/v2/lexer"

	"verifharness/mon"
)

// Two parsers over the same root type with different Union member lists: each
// String() describes its own grammar.

type c14U interface{ isC14U() }
type c14A struct {
	X string `@Ident`
}
type c14B struct {
	N string `@Int "%"`
}
type c14Root struct {
	V []c14U `@@*`
}

func (c14A) isC14U() {}
func (c14B) isC14U() {}

// Names outside ASCII (Go allows them for types; lexer rules may carry them
// too) and anonymous struct types as root and as sub-productions.

type Größe struct {
	Wert string `@Wörter`
	Maß  *Maße  `@@?`
}
type Maße struct {
	E string `"[" @Wörter "]"`
}

type c14AnonHolder struct {
	Names *struct {
		N []string `@Ident+`
	} `@@? ":"`
	V string `@String`
}

func c14Shapes(c *mon.Child) {
	wl := lexer.MustSimple([]lexer.SimpleRule{{Name: "Wörter", Pattern: `[a-zäöüß]+`}, {Name: "Punct", Pattern: `[\[\]]`}, {Name: "ws", Pattern: `\s+`}})
	cases := []struct {
		desc  string
		build func() (interface{ String() string }, error)
		want  []string // production names that must be defined
	}{
		{"production and token names outside ASCII", func() (interface{ String() string }, error) {
			return participle.Build[Größe](participle.Lexer(wl))
		}, []string{"Größe", "Maße"}},
		{"anonymous struct type as the root", func() (interface{ String() string }, error) {
			return participle.Build[struct {
				A string   `@Ident`
				B []string `( "," @Ident )*`
			}]()
		}, nil},
		{"optional reference to an anonymous struct whose body is a repetition", func() (interface{ String() string }, error) {
			return participle.Build[c14AnonHolder]()
		}, []string{"C14AnonHolder"}},
	}
	for i, tc := range cases {
		key := fmt.Sprintf("static-shape%d", i)
		if !c.Want(key) {
			continue
		}
		c.Begin(key, tc.desc)
		c.Eval(1)
		p, err := tc.build()
		if err != nil {
			c.Violation("", key, "static grammar does not build ("+tc.desc+"): "+err.Error(), nil)
			c.End(key)
			continue
		}
		var out string
		if pn, pv, _ := mon.Guard(func() { out = p.String() }); pn {
			c.Violation("", key, "Parser.String() panicked ("+tc.desc+"): "+pv, nil)
			c.End(key)
			continue
		}
		e, err := ebnf.ParseString(out)
		if err != nil {
			c.Violation("", key, fmt.Sprintf("Parser.String() is not valid EBNF (%s): %v | output: %q", tc.desc, err, out), map[string]interface{}{"ebnf": out})
			c.End(key)
			continue
		}
		defined := map[string]int{}
		for _, pr := range e.Productions {
			defined[pr.Production]++
		}
		for _, w := range tc.want {
			if defined[w] != 1 {
				c.Violation("", key, fmt.Sprintf("production %s is defined %d times in Parser.String() (%s) | output: %q", w, defined[w], tc.desc, out), map[string]interface{}{"ebnf": out})
			}
		}
		if again, err := ebnf.ParseString(e.String()); err != nil || again.String() != e.String() {
			c.Violation("", key, fmt.Sprintf("printing the parsed EBNF does not give the same tree back (%s): %v | output: %q", tc.desc, err, out), map[string]interface{}{"ebnf": out})
		}
		c.Feature("static_shapes_printed_and_reparsed")
		c.Nontrivial("static-shape:" + tc.desc)
		c.End(key)
	}
}

func c14Static(c *mon.Child) {
	c14Shapes(c)
	key := "static-two-parsers"
	if !c.Want(key) {
		return
	}
	c.Begin(key, "two parsers over one root type with different union members")
	defer c.End(key)
	p1, err1 := participle.Build[c14Root](participle.Union[c14U](c14A{}))
	p2, err2 := participle.Build[c14Root](participle.Union[c14U](c14A{}, c14B{}))
	if err1 != nil || err2 != nil {
		c.Violation("", key, "static union grammars do not build: "+errText(err1)+" / "+errText(err2), nil)
		return
	}
	prods := func(s string) (map[string]bool, error) {
		e, err := ebnf.ParseString(s)
		if err != nil {
			return nil, err
		}
		out := map[string]bool{}
		for _, p := range e.Productions {
			out[p.Production] = true
		}
		return out, nil
	}
	var s1, s2, s1again string
	if pn, pv, _ := mon.Guard(func() { s1 = p1.String(); s2 = p2.String(); s1again = p1.String() }); pn {
		c.Violation("", key, "Parser.String() panicked: "+pv, nil)
		return
	}
	c.Eval(3)
	d1, e1 := prods(s1)
	d2, e2 := prods(s2)
	switch {
	case e1 != nil || e2 != nil:
		c.Violation("", key, "the ebnf package cannot parse Parser.String(): "+errText(e1)+" / "+errText(e2), nil)
	case d1["C14B"] || !d1["C14A"]:
		c.Violation("", key, "String() of the parser built with Union(A) does not describe that grammar: "+trunc(s1, 300), nil)
	case !d2["C14B"] || !d2["C14A"] || !strings.Contains(s2, `"%"`):
		c.Violation("", key, "String() of the parser built with Union(A, B) lacks production C14B or its literal (a second parser over the same root type): "+trunc(s2, 300), nil)
	case s1 != s1again:
		c.Violation("", key, "String() of the first parser changed after the second parser was printed: "+trunc(s1, 200)+" vs "+trunc(s1again, 200), nil)
	}
	c.Nontrivial("static:two-parsers")
	c.Feature("parsers_over_one_root_type_with_different_unions")
}
