package props

import (
	"bytes"
	"fmt"
	"io"
	"strings"
	"text/scanner"

	"github.com/alecthomas/participle/v2/lexer"

	"verifharness/lexgen"
	"verifharness/mon"
)

// C04: tokens are lossless and their positions are exact. The oracle is
// computed from the input text alone (no reference lexer involved).

// c04Oracle checks a complete, successful token list against the input.
func c04Oracle(toks []lexer.Token, input, filename string, concat bool) string {
	if len(toks) == 0 {
		return "no tokens at all (not even EOF)"
	}
	prevEnd := 0
	var sb strings.Builder
	for i, t := range toks {
		last := i == len(toks)-1
		if t.Type == lexer.EOF {
			if !last {
				return fmt.Sprintf("EOF token #%d is not the last token", i)
			}
			if t.Pos.Offset != len(input) {
				return fmt.Sprintf("EOF positioned at offset %d, input length %d", t.Pos.Offset, len(input))
			}
		} else {
			if last {
				return "token list does not end with EOF"
			}
			off := t.Pos.Offset
			if off < prevEnd {
				return fmt.Sprintf("token #%d %q at offset %d starts before the previous token ended (%d)", i, t.Value, off, prevEnd)
			}
			if off < 0 || off+len(t.Value) > len(input) || input[off:off+len(t.Value)] != t.Value {
				got := ""
				if off >= 0 && off <= len(input) {
					e := off + len(t.Value)
					if e > len(input) {
						e = len(input)
					}
					got = input[off:e]
				}
				return fmt.Sprintf("token #%d value %q is not the input text at its offset %d (%q)", i, t.Value, off, got)
			}
			if t.Value == "" {
				return fmt.Sprintf("token #%d at offset %d is empty", i, off)
			}
			prevEnd = off + len(t.Value)
			sb.WriteString(t.Value)
		}
		l, c := lexgen.LineCol(input, t.Pos.Offset)
		if t.Pos.Line != l || t.Pos.Column != c {
			return fmt.Sprintf("token #%d %q at offset %d has position %d:%d, the input says %d:%d", i, t.String(), t.Pos.Offset, t.Pos.Line, t.Pos.Column, l, c)
		}
		if t.Pos.Filename != filename {
			return fmt.Sprintf("token #%d carries filename %q, caller supplied %q", i, t.Pos.Filename, filename)
		}
	}
	if concat && sb.String() != input {
		return fmt.Sprintf("concatenation of token values (%d bytes) is not the input (%d bytes)", sb.Len(), len(input))
	}
	return ""
}

func c04Features(c *mon.Child, toks []lexer.Token, input string) int {
	nt := 0
	multi, nl, nlThenMB := false, false, false
	for _, t := range toks {
		if strings.Contains(t.Value, "\n") {
			nl = true
			rest := t.Value[strings.LastIndex(t.Value, "\n")+1:]
			for _, r := range rest {
				if r > 0x7f {
					nlThenMB = true
				}
			}
		}
	}
	for _, r := range input {
		if r > 0x7f {
			multi = true
		}
	}
	if multi {
		nt++
		c.Feature("inputs_with_multibyte_text")
	}
	if nl {
		nt++
		c.Feature("inputs_with_token_spanning_newline")
	}
	if nlThenMB {
		nt++
		c.Feature("inputs_with_token_newline_then_multibyte")
	}
	if strings.Contains(input, "\r") {
		c.Feature("inputs_with_cr")
	}
	if strings.Count(input, "\n") >= 2 {
		nt++
	}
	return nt
}

var c04ScanPieces = []string{"foo", "x1", "é", "世界", "_a", "12", "0x1F", "3.25", "1e9", `"str"`, `"a\nb"`, `"é世"`, "'c'", "'\\n'", "`raw`", "`raw\nline2 é`", "`multi\n\n世 x`",
	"// comment", "/* c\n c2 é */", "+", "-", "(", ")", "{", "}", ";", ",", ".", "==", "<", "#", "@", "|"}

func c04ScanInput(r *mon.RNG) string {
	var sb strings.Builder
	if r.Chance(1, 12) {
		sb.WriteString("\ufeff")
	}
	n := r.Range(0, 14)
	for i := 0; i < n; i++ {
		sb.WriteString(c04ScanPieces[r.Intn(len(c04ScanPieces))])
		switch r.Intn(8) {
		case 0:
			sb.WriteString("\n")
		case 1:
			sb.WriteString("\r\n")
		case 2:
			sb.WriteString("\n\n  ")
		case 3:
			sb.WriteString("\t")
		case 4:
			sb.WriteString("  ")
		case 5:
			sb.WriteString("\n")
		default:
			sb.WriteString(" ")
		}
	}
	if r.Chance(1, 5) {
		sb.WriteString("\n")
	}
	return sb.String()
}

// c04Generated applies the oracle to the Go lexers emitted by `participle gen lexer`
// for generated rule maps (built into this child by the prepare step).
func c04Generated(c *mon.Child) {
	for _, idx := range lexgen.GeneratedOrder {
		gen := lexgen.Generated[idx]
		g := lexMapFor("C04", c.Seed, c.Batch, idx)
		concat := !g.HasElided()
		r := c.RNG("geninputs", idx)
		inputs := lexInputs(r, g, c.N(40, 120))
		if c.Batch == 0 && idx == 0 {
			inputs = append([]string{"a # c\nb  c\n", "# é\n\nx  y # 世\nz"}, inputs...)
		}
		for ii, in := range inputs {
			key := fmt.Sprintf("g%d.i%d", idx, ii)
			if !c.Want(key) {
				continue
			}
			c.Begin(key, fmt.Sprintf("generated lexer %s <- %q", trunc(g.String(), 300), trunc(in, 200)))
			c.Eval(1)
			fname := []string{"gen.txt", "", "d/é"}[ii%3]
			var toks []lexer.Token
			var lerr error
			var buf []byte
			p, _, _ := mon.Guard(func() {
				var lx lexer.Lexer
				switch ii % 3 {
				case 0:
					lx, lerr = gen.(lexer.StringDefinition).LexString(fname, in)
				case 1:
					buf = []byte(in)
					lx, lerr = gen.(lexer.BytesDefinition).LexBytes(fname, buf)
				default:
					lx, lerr = gen.Lex(fname, strings.NewReader(in))
				}
				if lerr == nil {
					toks, lerr = lexer.ConsumeAll(lx)
				}
				c04Scribble(buf)
			})
			if p || lerr != nil {
				c.Feature("generated_inputs_not_lexable")
				c.End(key)
				continue
			}
			if d := c04Oracle(toks, in, fname, concat); d != "" {
				c.Violation("", key, "generated lexer: "+d+" | rules: "+trunc(g.String(), 500)+fmt.Sprintf(" | input: %q", trunc(in, 300)),
					map[string]interface{}{"rules": g, "input": trunc(in, 2000), "difference": d})
			}
			c.Feature("generated_lexer_outputs_checked")
			if g.HasElided() {
				c.Feature("generated_lexer_outputs_with_elided_rules")
			}
			if c04Features(c, toks, in) >= 2 && len(toks) > 2 {
				c.Nontrivial("generated" + g.String() + "\x00" + in)
			}
			c.End(key)
		}
	}
}

// c04Scribble overwrites a byte slice the caller handed to LexBytes: a token is a
// value of its own, what the caller does with its buffer afterwards must not reach it.
func c04Scribble(b []byte) {
	for i := range b {
		b[i] = 'X'
	}
}

// c04ScannerPairs advances two lexers of one text/scanner definition alternately:
// each has to deliver its own input's tokens at its own input's positions.
func c04ScannerPairs(c *mon.Child, custom lexer.Definition) {
	r := c.RNG("scanpairs")
	for i := 0; i < c.N(400, 4000); i++ {
		a, b := c04ScanInput(r), c04ScanInput(r)
		key := fmt.Sprintf("sp%d", i)
		if !c.Want(key) {
			continue
		}
		c.Begin(key, fmt.Sprintf("text/scanner pair <- %q / %q", a, b))
		c.Eval(1)
		def, how := lexer.Definition(lexer.TextScannerLexer), "TextScannerLexer"
		if i%2 == 1 {
			def, how = custom, "NewTextScannerLexer(comments kept)"
		}
		var ta, tb []lexer.Token
		var ea, eb error
		p, pv, _ := mon.Guard(func() {
			var la, lb lexer.Lexer
			if la, ea = def.Lex("a.go", strings.NewReader(a)); ea != nil {
				return
			}
			// the first lexer is part-way through its input when the second one is made
			for k := 0; k < i%4; k++ {
				t, err := la.Next()
				if err != nil {
					ea = err
					return
				}
				ta = append(ta, t)
				if t.EOF() {
					break
				}
			}
			if lb, eb = def.Lex("b.go", strings.NewReader(b)); eb != nil {
				return
			}
			doneA := len(ta) > 0 && ta[len(ta)-1].EOF()
			doneB := false
			for !doneA || !doneB {
				if !doneA {
					t, err := la.Next()
					if err != nil {
						ea = err
						return
					}
					ta = append(ta, t)
					doneA = t.EOF()
				}
				if !doneB {
					t, err := lb.Next()
					if err != nil {
						eb = err
						return
					}
					tb = append(tb, t)
					doneB = t.EOF()
				}
				if len(ta)+len(tb) > len(a)+len(b)+4 {
					return
				}
			}
		})
		if p {
			c.Violation("", key, how+": interleaved lexers panicked: "+pv, map[string]interface{}{"a": a, "b": b})
			c.End(key)
			continue
		}
		if ea != nil || eb != nil {
			c.Feature("scanner_pairs_not_lexable")
			c.End(key)
			continue
		}
		if d := c04Oracle(ta, a, "a.go", false); d != "" {
			c.Violation("", key, fmt.Sprintf("%s, two lexers of one definition advanced alternately, first lexer: %s | inputs: %q / %q", how, d, a, b), map[string]interface{}{"a": a, "b": b, "difference": d})
		} else if d := c04Oracle(tb, b, "b.go", false); d != "" {
			c.Violation("", key, fmt.Sprintf("%s, two lexers of one definition advanced alternately, second lexer: %s | inputs: %q / %q", how, d, a, b), map[string]interface{}{"a": a, "b": b, "difference": d})
		}
		c.Feature("scanner_lexer_pairs_advanced_alternately")
		if len(ta) > 2 && len(tb) > 2 {
			c.Nontrivial("scanpair\x00" + a + "\x00" + b)
		}
		c.End(key)
	}
}

func c04Child(c *mon.Child) {
	c04Generated(c)
	// Part A: stateful and simple lexers on generated maps.
	nMaps := c.N(150, 2000)
	nInputs := c.N(80, 250)
	for mi := 0; mi < nMaps; mi++ {
		r := c.RNG("map", mi)
		simple := r.Chance(1, 3)
		var g *lexgen.GMap
		var def *lexer.StatefulDefinition
		var err error
		kind := "stateful"
		if simple {
			kind = "simple"
			g = lexgen.GenMap(r, &lexgen.MapOpts{MaxStates: 1, Elide: r.Chance(1, 3)})
			rules := []lexer.SimpleRule{}
			for _, gr := range g.Rules["Root"] {
				rules = append(rules, lexer.SimpleRule{Name: gr.Name, Pattern: gr.Pattern})
			}
			mon.Guard(func() { def, err = lexer.NewSimple(rules) })
		} else {
			g = lexgen.GenMap(r, &lexgen.MapOpts{Backrefs: true, MaxStates: 5, Elide: r.Chance(1, 3)})
			def, err, _, _ = buildDef(g)
		}
		if def == nil || err != nil {
			c.Feature("constructor_rejected")
			continue
		}
		c.Feature("maps_" + kind)
		concat := !g.HasElided()
		inputs := lexInputs(r.Fork("inputs"), g, nInputs)
		for ii, in := range inputs {
			key := fmt.Sprintf("m%d.i%d", mi, ii)
			if !c.Want(key) {
				continue
			}
			c.Begin(key, fmt.Sprintf("%s <- %q", trunc(g.String(), 300), in))
			c.Eval(1)
			fname := []string{"f.txt", "", "dir/é.x"}[ii%3]
			var toks []lexer.Token
			var lerr error
			var scribble []byte
			p, pv, st := mon.Guard(func() {
				var lx lexer.Lexer
				switch ii % 4 {
				case 0:
					lx, lerr = def.LexString(fname, in)
				case 1:
					if bd, ok := lexer.Definition(def).(lexer.BytesDefinition); ok && ii%8 == 5 {
						// a definition that takes bytes: the caller's buffer is the caller's again afterwards
						scribble = []byte(in)
						lx, lerr = bd.LexBytes(fname, scribble)
						c.Feature("runtime_definitions_lexed_through_LexBytes")
						break
					}
					lx, lerr = def.Lex(fname, strings.NewReader(in))
				case 3:
					// a reader the caller has already read a header from: lexing starts where the reader stands
					rd := strings.NewReader("header line\n" + in)
					io.CopyN(io.Discard, rd, int64(len("header line\n")))
					lx, lerr = def.Lex(fname, rd)
				default:
					// a reader that has a name of its own: the caller's filename still wins
					lx, lerr = def.Lex(fname, namedReader{strings.NewReader(in), "reader-name.txt"})
				}
				if lerr == nil {
					toks, lerr = lexer.ConsumeAll(lx)
				}
				c04Scribble(scribble)
			})
			if p {
				// Totality is C07's business; here only successful lexing is judged.
				c.Feature("lexing_panicked_(see_C07)")
				_ = pv
				_ = st
				c.End(key)
				continue
			}
			if lerr != nil {
				c.Feature("inputs_not_lexable")
				c.End(key)
				continue
			}
			if d := c04Oracle(toks, in, fname, concat); d != "" {
				c.Violation("", key, kind+" lexer: "+d+" | rules: "+trunc(g.String(), 500)+fmt.Sprintf(" | input: %q", in),
					map[string]interface{}{"rules": g, "input": in, "difference": d})
			}
			if c04Features(c, toks, in) >= 2 && len(toks) > 2 {
				c.Nontrivial(kind + g.String() + "\x00" + in)
				c.Sample(map[string]interface{}{"lexer": kind, "rules": trunc(g.String(), 200), "input": in, "tokens": len(toks)})
			}
			c.End(key)
		}
	}
	// Part A2: a fixed catch-all definition, so that every byte order mark, NUL and stray byte is a token of its own
	if c.Batch == 0 {
		catchAll, err := lexer.NewSimple([]lexer.SimpleRule{{Name: "Word", Pattern: `[a-zé]+`}, {Name: "NL", Pattern: `\r?\n`}, {Name: "Any", Pattern: `(?s:.)`}})
		if err == nil {
			rr := c.RNG("catchall")
			pieces := []string{"\ufeff", "ab", "é", " ", "\n", "\r\n", "\x00", "世", "\ufeffx", "\xff", ";"}
			for i := 0; i < c.N(600, 6000); i++ {
				key := fmt.Sprintf("catchall%d", i)
				if !c.Want(key) {
					continue
				}
				in := ""
				if i%3 == 0 {
					in = "\ufeff" // a leading byte order mark is input like any other
				}
				for k := rr.Range(0, 7); k > 0; k-- {
					in += pieces[rr.Intn(len(pieces))]
				}
				c.Begin(key, fmt.Sprintf("catch-all simple lexer <- %q", in))
				c.Eval(1)
				var toks []lexer.Token
				var lerr error
				mon.Guard(func() {
					var lx lexer.Lexer
					switch i % 3 {
					case 0:
						lx, lerr = catchAll.LexString("b.txt", in)
					case 1:
						lx, lerr = catchAll.Lex("b.txt", strings.NewReader(in))
					default:
						lx, lerr = catchAll.Lex("b.txt", bytes.NewReader([]byte(in)))
					}
					if lerr == nil {
						toks, lerr = lexer.ConsumeAll(lx)
					}
				})
				if lerr == nil && toks != nil {
					if d := c04Oracle(toks, in, "b.txt", true); d != "" {
						c.Violation("", key, "simple lexer with a catch-all rule: "+d+fmt.Sprintf(" | rules: Word=[a-zé]+ NL=\\r?\\n Any=(?s:.) | input: %q", in), map[string]interface{}{"input": in})
					}
					if strings.Contains(in, "\ufeff") {
						c.Nontrivial("catchall:" + in)
						c.Feature("inputs_with_a_byte_order_mark_lexed_as_tokens")
					}
				}
				c.End(key)
			}
		}
	}
	// Part B: the text/scanner based lexers, through every constructor.
	nScan := c.N(20000, 400000)
	r := c.RNG("scan")
	custom := lexer.NewTextScannerLexer(func(s *scanner.Scanner) {
		s.Mode = scanner.ScanIdents | scanner.ScanInts | scanner.ScanFloats | scanner.ScanStrings | scanner.ScanRawStrings | scanner.ScanChars | scanner.ScanComments
	})
	if c.Batch == 0 {
		c04ScannerPairs(c, custom)
	}
	for i := 0; i < nScan; i++ {
		in := c04ScanInput(r)
		if i == 0 {
			in = ""
		}
		key := fmt.Sprintf("s%d", i)
		if !c.Want(key) {
			continue
		}
		c.Begin(key, fmt.Sprintf("text/scanner <- %q", in))
		c.Eval(1)
		fname := []string{"g.go", "", "é/x"}[i%3]
		var toks []lexer.Token
		var lerr error
		var how string
		var sbuf []byte
		p, pv, _ := mon.Guard(func() {
			var lx lexer.Lexer
			switch i % 6 {
			case 0:
				how = "TextScannerLexer.Lex"
				lx, lerr = lexer.TextScannerLexer.Lex(fname, strings.NewReader(in))
			case 1:
				how = "lexer.LexString"
				lx = lexer.LexString(fname, in)
			case 2:
				how = "lexer.LexBytes"
				sbuf = []byte(in)
				lx = lexer.LexBytes(fname, sbuf)
			case 3:
				how = "lexer.Lex (reader already read from)"
				rd := bytes.NewReader([]byte("#!header\n" + in))
				io.CopyN(io.Discard, rd, int64(len("#!header\n")))
				lx = lexer.Lex(fname, rd)
			case 4:
				how = "NewTextScannerLexer(comments kept).Lex"
				lx, lerr = custom.Lex(fname, strings.NewReader(in))
			default:
				how = "LexWithScanner"
				s := &scanner.Scanner{}
				s.Init(strings.NewReader(in))
				s.Error = func(*scanner.Scanner, string) {}
				// a scanner that was used before keeps its old Filename through Init; the name given to LexWithScanner counts
				s.Filename = "stale-name.txt"
				lx = lexer.LexWithScanner(fname, s)
			}
			if lerr == nil {
				toks, lerr = lexer.ConsumeAll(lx)
			}
			c04Scribble(sbuf)
		})
		if p {
			c.Violation("", key, how+" panicked: "+pv, map[string]interface{}{"input": in})
			c.End(key)
			continue
		}
		if lerr != nil {
			c.Feature("scanner_inputs_not_lexable")
			c.End(key)
			continue
		}
		if d := c04Oracle(toks, in, fname, false); d != "" {
			class := ""
			if in == "" {
				class = "textscanner-empty-input-eof-position"
			}
			c.Violation(class, key, how+": "+d+fmt.Sprintf(" | input: %q", in), map[string]interface{}{"constructor": how, "input": in, "difference": d})
		}
		c.Feature("scanner_inputs_checked")
		if c04Features(c, toks, in) >= 2 && len(toks) > 2 {
			c.Nontrivial("scan\x00" + in)
			if i%7 == 0 {
				c.Sample(map[string]interface{}{"lexer": how, "input": in, "tokens": len(toks)})
			}
		}
		c.End(key)
	}
}

func init() {
	Register(&mon.Spec{
		ID:   "C04",
		Rule: "case = (lexer, input) for stateful and simple lexers on generated rule maps and for every text/scanner constructor on Go-like text with multi-line raw strings and comments, multi-byte runes, CR/LF, BOM, empty input. On every successful lexing each token value must be the input bytes at its offset, offsets increasing and non-overlapping, one final EOF at len(input), line/column computed from the input alone, filename as supplied, and concatenation = input for maps without lower-case rules. Non-trivial: >=2 of {multi-byte text, a token spanning a newline, multi-byte text after the newline inside a token, >=2 newlines}. Distinct by (lexer kind+rules, input). Go lexers emitted by `participle gen lexer` for generated rule maps (incl. lower-case rules) are compiled into the child and checked with the same oracle through LexString/LexBytes/Lex.",
		Assumptions: []string{
			"column counts characters (runes; an invalid byte counts as one)",
			"only successful lexing is judged; totality belongs to C07",
		},
		Batches:    func(t string) int { return pick(t, 4, 16) },
		Floor:      func(t string) int { return pick(t, 300, 5000) },
		TimeoutSec: func(t string) int { return pick(t, 120, 3000) },
		Prepare:    lexProgPrepare("C04", func(t string) int { return pick(t, 25, 80) }),
		Child:      c04Child,
	})
}
