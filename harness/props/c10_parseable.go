package props

import (
	"fmt"
	"strings"

	"github.com/alecthomas/participle/v2"
	"github.com/alecthomas/participle/v2/lexer"

	"verifharness/mon"
)

// A grammar whose ROOT type implements Parseable: elided tokens anywhere,
// also after the last ordinary token, must not change acceptance or result.

type c10List struct {
	Items []string
}

func (l *c10List) Parse(lex *lexer.PeekingLexer) error {
	for {
		t := lex.Peek()
		if t.EOF() || t.Value == "," || t.Value == ";" {
			if len(l.Items) == 0 {
				return participle.NextMatch
			}
			return fmt.Errorf("expected an item, got %q", t.Value)
		}
		l.Items = append(l.Items, lex.Next().Value)
		if lex.Peek().Value != "," {
			return nil
		}
		lex.Next()
	}
}

var c10PLex = lexer.MustSimple([]lexer.SimpleRule{
	{Name: "Comment", Pattern: `#[^\n]*`},
	{Name: "Ident", Pattern: `[a-zé]+`},
	{Name: "Punct", Pattern: `[;,]`},
	{Name: "Whitespace", Pattern: `\s+`},
})

func c10ParseableRoot(c *mon.Child) {
	p, err := participle.Build[c10List](participle.Lexer(c10PLex), participle.Elide("Whitespace", "Comment"))
	if err != nil {
		c.Violation("", "proot", "grammar with a Parseable root does not build: "+err.Error(), nil)
		return
	}
	r := c.RNG("proot")
	seps := []string{"", " ", "  ", "\n", " # c\n", "\t", "# c\n# d\n"}
	for i := 0; i < c.N(600, 6000); i++ {
		key := fmt.Sprintf("proot%d", i)
		if !c.Want(key) {
			continue
		}
		// token string: mostly valid lists, sometimes a trailing extra token
		var toks []string
		for n := r.Range(1, 4); n > 0; n-- {
			toks = append(toks, r.Pick("a", "b", "é", "foo"))
			if n > 1 {
				toks = append(toks, ",")
			}
		}
		switch r.Intn(6) {
		case 0:
			toks = append(toks, ";")
		case 1:
			toks = append(toks, "x")
		}
		render := func(style int) string {
			var sb strings.Builder
			for j, t := range toks {
				sep := ""
				if style > 0 {
					sep = seps[r.Intn(len(seps))]
				}
				if j > 0 && sep == "" && t != "," && t != ";" && toks[j-1] != "," && toks[j-1] != ";" {
					sep = " "
				}
				sb.WriteString(sep + t)
			}
			if style > 0 {
				sb.WriteString(seps[r.Intn(len(seps))])
			}
			return sb.String()
		}
		base := render(0)
		c.Begin(key, fmt.Sprintf("Parseable root <- %q and re-spacings", base))
		type out struct {
			ok    bool
			items string
			pan   bool
		}
		run := func(in string) out {
			var v *c10List
			var err error
			c.Eval(1)
			if pn, _, _ := mon.Guard(func() { v, err = p.ParseString("", in) }); pn {
				return out{pan: true}
			}
			o := out{ok: err == nil}
			if v != nil && err == nil {
				o.items = strings.Join(v.Items, "|")
			}
			return o
		}
		first := run(base)
		for s := 1; s <= 6; s++ {
			in := render(s)
			got := run(in)
			if got != first {
				c.Violation("", key, fmt.Sprintf("Parseable root: %q gives accepted=%v items=%q panicked=%v, the same tokens spaced as %q give accepted=%v items=%q panicked=%v", base, first.ok, first.items, first.pan, in, got.ok, got.items, got.pan), map[string]interface{}{"input_a": base, "input_b": in})
				break
			}
		}
		if first.ok {
			c.Nontrivial("proot:" + base)
			c.Feature("parseable_root_inputs_respaced")
		}
		c.End(key)
	}
}

// A negation captured into lexer.Token fields: whatever the spacing, the field
// holds the token the negation matched (compared by type and text).
type c10NegTok struct {
	Kw    string        `@"let"`
	First lexer.Token   `@~";"`
	Rest  []lexer.Token `@( ~";" )*`
	End   string        `@";"`
}

func c10TokenNegation(c *mon.Child) {
	p, err := participle.Build[c10NegTok](participle.Lexer(c10PLex), participle.Elide("Whitespace", "Comment"))
	if err != nil {
		c.Violation("", "negtok", "grammar with a negation captured into Token fields does not build: "+err.Error(), nil)
		return
	}
	sym := c10PLex.Symbols()
	el := map[lexer.TokenType]bool{sym["Whitespace"]: true, sym["Comment"]: true}
	r := c.RNG("negtok")
	seps := []string{" ", "  ", "\n", " # c\n", "\t"}
	canon := func(v *c10NegTok) string {
		s := fmt.Sprintf("%d:%q|", v.First.Type, v.First.Value)
		for _, t := range v.Rest {
			if !el[t.Type] { // elided tokens between matched ones belong to the run; they vary with the spacing by construction
				s += fmt.Sprintf("%d:%q ", t.Type, t.Value)
			}
		}
		return s
	}
	for i := 0; i < c.N(500, 5000); i++ {
		key := fmt.Sprintf("negtok%d", i)
		if !c.Want(key) {
			continue
		}
		toks := []string{"let"}
		for n := r.Range(1, 4); n > 0; n-- {
			toks = append(toks, r.Pick("a", "é", ",", "foo"))
		}
		toks = append(toks, ";")
		render := func(style int) string {
			out := ""
			if style > 0 {
				out = r.Pick("", " ", "\n")
			}
			for j, t := range toks {
				if j > 0 {
					if style == 0 {
						out += " "
					} else {
						out += seps[r.Intn(len(seps))]
					}
				}
				out += t
			}
			if style > 0 {
				out += r.Pick("", " ", " # c")
			}
			return out
		}
		base := render(0)
		c.Begin(key, fmt.Sprintf("negation captured into Token fields <- %q and re-spacings", base))
		var first string
		firstOK := false
		for s := 0; s <= 5; s++ {
			in := render(s)
			c.Eval(1)
			var v *c10NegTok
			var perr error
			if pn, pv, _ := mon.Guard(func() { v, perr = p.ParseString("", in) }); pn {
				c.Violation("", key, fmt.Sprintf("parse panicked (%s) | input %q", pv, in), nil)
				break
			}
			ok := perr == nil && v != nil
			cn := ""
			if ok {
				cn = canon(v)
				if len(v.Rest) > 0 && el[v.Rest[0].Type] {
					cn += " (token list starts with an elided token)"
				}
			}
			if s == 0 {
				first, firstOK = cn, ok
				continue
			}
			if ok != firstOK || cn != first {
				c.Violation("", key, fmt.Sprintf("Kw `@\"let\"`; First lexer.Token `@~\";\"`; Rest []lexer.Token `@( ~\";\" )*`; End `@\";\"`: %q gives accepted=%v %s, re-spaced as %q it gives accepted=%v %s", base, firstOK, first, in, ok, cn), map[string]interface{}{"input_a": base, "input_b": in})
				break
			}
		}
		if firstOK {
			c.Nontrivial("negtok:" + base)
			c.Feature("token_captures_of_a_negation_respaced")
		}
		c.End(key)
	}
}
