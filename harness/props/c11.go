package props

import (
	"fmt"
	"reflect"
	"strings"

	"github.com/alecthomas/participle/v2"
	"github.com/alecthomas/participle/v2/lexer"

	"verifharness/gram"
	"verifharness/mon"
)

// C11: node positions and token lists describe exactly the text the node consumed.

func c11Opts(r *mon.RNG, i int) *gram.GenOpts {
	prof := []int{gram.ProfStateful, gram.ProfStateful, gram.ProfDefault, gram.ProfLower, gram.ProfScanCfg}[i%5]
	o := &gram.GenOpts{Profile: prof, MaxProds: 5, Budget: 14 + r.Intn(12) + (i/90)*6, Depth: 2 + r.Intn(3) + i/150, TokKinds: i%4 == 3, TokMulti: i%4 == 3, Unions: true,
		SharePrefix: 7, CaptureBias: 3, SubBias: 7, AllowBang: false, ForcePos: true, NamesElided: i%9 == 8}
	if o.NamesElided {
		o.Profile = gram.ProfStateful // only this profile has elided token types a grammar can name
	}
	return o
}

// c11Invariants checks the model-free structural invariants against the raw
// token stream L (= Parser.Lex output): contiguity, nesting, sibling order.
// It returns a description of the first violated invariant.
func c11Invariants(L []lexer.Token, el map[lexer.TokenType]bool, named bool, n *gram.RNode, path string, parentS, parentE int, count *int) (s, e int, msg string) {
	idx := map[int]int{} // offset -> index in L
	for i, t := range L {
		if _, ok := idx[t.Pos.Offset]; !ok || t.Type != lexer.EOF {
			idx[t.Pos.Offset] = i
		}
	}
	var walk func(n *gram.RNode, path string, ps, pe int) (int, int, string)
	walk = func(n *gram.RNode, path string, ps, pe int) (int, int, string) {
		if n == nil {
			return -1, -1, ""
		}
		s, e := -1, -1
		if n.HasTokens && len(n.Tokens) > 0 {
			*count++
			i, ok := idx[n.Tokens[0].Pos.Offset]
			if !ok {
				return 0, 0, fmt.Sprintf("%s: Tokens[0] %q@%d is not a token of the stream", path, n.Tokens[0].Value, n.Tokens[0].Pos.Offset)
			}
			s, e = i, i+len(n.Tokens)
			if e > len(L) {
				return 0, 0, fmt.Sprintf("%s: Tokens runs past the end of the stream", path)
			}
			for j, t := range n.Tokens {
				if L[s+j] != t {
					return 0, 0, fmt.Sprintf("%s: Tokens is not a contiguous slice of the stream: Tokens[%d]=%q@%d, stream[%d]=%q@%d", path, j, t.Value, t.Pos.Offset, s+j, L[s+j].Value, L[s+j].Pos.Offset)
				}
			}
			if ps >= 0 && (s < ps || e > pe) {
				return 0, 0, fmt.Sprintf("%s: node run [%d,%d) lies outside its parent's run [%d,%d)", path, s, e, ps, pe)
			}
			if !named {
				// Pos = first non-elided token of the run; EndPos = next raw token after the run
				f := s
				for f < e && el[L[f].Type] {
					f++
				}
				if f < e {
					if n.HasPos && n.Pos != L[f].Pos {
						return 0, 0, fmt.Sprintf("%s: Pos %v is not the position of the node's first non-elided token %q at %v", path, n.Pos, L[f].Value, L[f].Pos)
					}
					if n.HasEndPos && e < len(L) && n.EndPos != L[e].Pos {
						return 0, 0, fmt.Sprintf("%s: EndPos %v is not the position of the next raw token after the node (%v)", path, n.EndPos, L[e].Pos)
					}
					if n.HasPos && n.HasEndPos && n.Pos.Offset > n.EndPos.Offset {
						return 0, 0, fmt.Sprintf("%s: Pos %v lies after EndPos %v", path, n.Pos, n.EndPos)
					}
				}
			}
		}
		// children in field order; sibling runs must be disjoint and ordered
		cs, ce := s, e
		if cs < 0 {
			cs, ce = ps, pe
		}
		type run struct {
			s, e int
			path string
		}
		var runs []run
		keys := make([]string, 0, len(n.F))
		for k := range n.F {
			keys = append(keys, k)
		}
		for _, k := range keys {
			var kids []*gram.RNode
			switch v := n.F[k].(type) {
			case *gram.RNode:
				kids = []*gram.RNode{v}
			case []*gram.RNode:
				kids = v
			}
			prevEnd := -1
			for ki, kid := range kids {
				p := fmt.Sprintf("%s.%s[%d]", path, k, ki)
				ks, ke, m := walk(kid, p, cs, ce)
				if m != "" {
					return 0, 0, m
				}
				if ks >= 0 {
					// elements of one slice field are appended in input order
					if ks < prevEnd {
						return 0, 0, fmt.Sprintf("%s: run [%d,%d) starts before the previous element of the same field ended (%d)", p, ks, ke, prevEnd)
					}
					prevEnd = ke
					runs = append(runs, run{ks, ke, p})
				}
			}
		}
		// sibling runs (across all fields) are pairwise disjoint
		for i := 1; i < len(runs); i++ {
			for j := i; j > 0 && runs[j].s < runs[j-1].s; j-- {
				runs[j], runs[j-1] = runs[j-1], runs[j]
			}
		}
		for i := 1; i < len(runs); i++ {
			if runs[i].s < runs[i-1].e {
				return 0, 0, fmt.Sprintf("sibling runs overlap: %s [%d,%d) and %s [%d,%d)", runs[i-1].path, runs[i-1].s, runs[i-1].e, runs[i].path, runs[i].s, runs[i].e)
			}
		}
		return s, e, ""
	}
	return walk(n, path, parentS, parentE)
}

// c11Held is a successful parse kept for a later look: the value the parser
// returned (not our copy of it) and the token stream it has to describe.
type c11Held struct {
	raw   interface{}
	T     []lexer.Token
	el    map[lexer.TokenType]bool
	named bool
	desc  string
}

func c11Child(c *mon.Child) {
	if c.Batch == 0 {
		c11Parseable(c)
		c11CustomNotes(c)
	}
	nInputs := c.N(120, 240)
	ks := []int{0, 1, 2, 5, participle.MaxLookahead, -1}
	var held c11Held
	for gi, h := range gram.Registry {
		gp := buildAll(h, ks, gi%3 == 1)
		if gp.err != nil {
			c.Feature("grammars_not_built")
			continue
		}
		g := gp.g
		named := namesElided(g)
		el := map[lexer.TokenType]bool{}
		for _, n := range gp.elided {
			el[gp.sym[n]] = true
		}
		c.Feature("grammars_built")
		r := c.RNG("inputs", h.ID)
		smp := gram.NewSampler(g, r)
		inputs := append(featInputs(g), smp.Inputs(nInputs)...)
		gdesc := trunc(g.String(), 900)
		for ii, toks := range inputs {
			key := fmt.Sprintf("%s.i%d", h.ID, ii)
			if !c.Want(key) {
				continue
			}
			text := gram.Render(g.Profile, toks, 2+ii%5, r.Fork("render", ii))
			c.Begin(key, fmt.Sprintf("%s <- %q", trunc(gdesc, 300), text))
			var T []lexer.Token
			mon.Guard(func() { T, _ = gp.byK[ks[0]].Lex("f", strings.NewReader(text)) })
			if T == nil {
				c.End(key)
				continue
			}
			if !affordable(c, gp, T) {
				c.End(key)
				continue
			}
			trailing := ii%5 == 4
			for _, k := range ks {
				c.Eval(1)
				rr := realParse(func() (interface{}, error) {
					return gp.byK[k].ParseString("f", text, participle.AllowTrailing(trailing))
				})
				if rr.Panicked || rr.Err != nil {
					continue
				}
				cfg := fmt.Sprintf("lookahead=%s trailing=%v", kName(k), trailing)
				report := func(what string) {
					c.Violation("", key, fmt.Sprintf("%s | %s | grammar: %s | input: %q", what, cfg, gdesc, text),
						map[string]interface{}{"grammar": g, "input": text, "config": cfg, "difference": what})
				}
				// model-free invariants
				nodes := 0
				rs, re, msg := c11Invariants(T, el, named, rr.AST, "root", -1, -1, &nodes)
				if msg != "" {
					report("invariant violated: " + msg)
					continue
				}
				_ = rs
				// An AST belongs to its caller: the one kept from an earlier parse (another input, often another
				// parser) still has to describe that parse after this one has run.
				if held.raw != nil {
					n2 := 0
					if _, _, m2 := c11Invariants(held.T, held.el, held.named, gram.FromReal(reflect.ValueOf(held.raw)), "root", -1, -1, &n2); m2 != "" {
						c.Violation("", key, fmt.Sprintf("the AST returned by an earlier parse no longer describes it after a later parse ran: %s | earlier parse: %s | later parse: grammar %s input %q", m2, held.desc, gdesc, text),
							map[string]interface{}{"earlier": held.desc, "grammar": g, "input": text, "difference": m2})
						held.raw = nil
					} else {
						c.Feature("earlier_ASTs_rechecked_after_a_later_parse")
					}
				}
				if nodes >= 2 {
					held = c11Held{raw: rr.Raw, T: T, el: el, named: named, desc: fmt.Sprintf("grammar %s input %q %s", trunc(gdesc, 300), text, cfg)}
				}
				// model-based: exact runs from the reference derivation
				env := gram.NewEnv(g, T, gp.sym, gp.elided, gp.ci, k, trailing)
				ref := env.Run()
				if env.Over || env.Unspec != "" || !ref.OK {
					continue
				}
				if re >= 0 && re != ref.End {
					report(fmt.Sprintf("root's run ends at raw token %d, the parse consumed through raw token %d", re, ref.End))
					continue
				}
				var ds []gram.Diff
				checked := 0
				gram.ComparePos(g, T, named, rr.AST, ref.Root, "root", &ds, &checked)
				if len(ds) > 0 {
					txt, _ := diffsText(ds)
					report("positions differ from the consumed runs of the accepted derivation: " + txt)
					continue
				}
				c.FeatureN("nodes_checked", int64(checked))
				if env.Tr.Abandoned > 0 && checked >= 2 {
					c.Nontrivial(h.IR + "\x00" + text + cfg)
					c.Feature("successful_parses_with_nodes_after_an_abandoned_attempt")
					if env.Tr.ElidedAtBacktrack > 0 {
						c.Feature("...and_elided_tokens_at_the_backtrack_point")
					}
					if ii%29 == 0 && k == 1 {
						c.Sample(map[string]interface{}{"grammar": gdesc, "input": text, "config": cfg, "nodes_checked": checked, "abandoned": env.Tr.Abandoned})
					}
				}
			}
			c.End(key)
		}
	}
}

func init() {
	Register(&mon.Spec{
		ID:          "C11",
		Rule:        "case = (generated grammar whose productions all carry Pos, EndPos and Tokens - directly, through an embedded struct, or as a named type convertible from lexer.Position; input with random spaces/newlines/comments; lookahead; AllowTrailing). On every successful parse (a) model-free invariants against Parser.Lex output: each Tokens is a contiguous slice of the stream, child within parent, siblings disjoint and in input order, Pos = first non-elided token of the run, EndPos = next raw token, Pos<=EndPos; (b) model-based: every node's (Tokens, Pos, EndPos) equals the run the reference derivation consumed, and the root's run ends where the parse stopped. Non-trivial: >=2 nodes checked and the reference trace abandoned an attempt before the parse succeeded. Distinct by (grammar IR, text, configuration). Batch 0 also runs a grammar with a hand-written Parseable that looks ahead and backs off with MakeCheckpoint/LoadCheckpoint inside nodes carrying Pos/EndPos/Tokens, on programs the harness writes itself (so every statement extent is known).",
		Assumptions: []string{"Pos/EndPos are only judged for nodes that consumed at least one token, in grammars that do not name elided types (as the property says)"},
		Batches:     func(t string) int { return pick(t, 4, 16) },
		Floor:       func(t string) int { return pick(t, 800, 12000) },
		TimeoutSec:  func(t string) int { return pick(t, 300, 3600) },
		Prepare:     gramPrepare("C11", func(t string) int { return pick(t, 90, 220) }, c11Opts, witnessExtra, false),
		Child:       c11Child,
	})
}
