package props

import (
	"fmt"
	"strconv"
	"strings"
	"unicode/utf8"

	"github.com/alecthomas/participle/v2"
	"github.com/alecthomas/participle/v2/lexer"

	"verifharness/mon"
)

// C18: token mappers transform exactly the selected tokens; Unquote inverts Go quoting.

type c18G struct {
	V []string `@( String | RawString | Char | Ident | Int )*`
}

type c18S struct {
	V []string `@( String | Ident | Num )*`
}

// stateful lexer with a three-style String rule
var c18Lex = lexer.MustSimple([]lexer.SimpleRule{
	{Name: "String", Pattern: "\"(?:\\\\.|[^\"\\\\])*\"|'(?:\\\\.|[^'\\\\])*'|`[^`]*`"},
	{Name: "Ident", Pattern: `[\p{L}_][\p{L}\p{N}_]*`},
	{Name: "Num", Pattern: `[0-9]+`},
	{Name: "WS", Pattern: `\s+`},
	{Name: "Punct", Pattern: `[-+;,]`},
})

var c18Alpha = []string{"a", "b", "Z", " ", "\"", "'", "`", "\\", "\n", "\t", "\r", "é", "世", "\x00", "\x7f", " ", "\U0001F600", "\xff", "\xc3", "\x80", "n", "x", "0", "u", "{", "%", "\\n", "\\\\", "$"}

func c18String(r *mon.RNG) string {
	n := r.Weighted(1, 3, 3, 3, 2, 2, 1, 1)
	var sb strings.Builder
	for i := 0; i < n; i++ {
		sb.WriteString(c18Alpha[r.Intn(len(c18Alpha))])
	}
	return sb.String()
}

// singleQuoted renders s as a single-quoted Go-style literal: the body uses
// the escapes of strconv.Quote, with ' escaped and " left bare.
func singleQuoted(s string) string {
	q := strconv.Quote(s)
	body := q[1 : len(q)-1]
	var sb strings.Builder
	for i := 0; i < len(body); i++ {
		if body[i] == '\\' && i+1 < len(body) {
			if body[i+1] == '"' {
				sb.WriteByte('"')
			} else {
				sb.WriteByte('\\')
				sb.WriteByte(body[i+1])
			}
			i++
			continue
		}
		if body[i] == '\'' {
			sb.WriteString(`\'`)
			continue
		}
		sb.WriteByte(body[i])
	}
	return "'" + sb.String() + "'"
}

func c18Child(c *mon.Child) {
	pDef, err1 := participle.Build[c18G](participle.Unquote("String", "RawString", "Char"))
	pDefault, err1b := participle.Build[c18G](participle.Unquote())
	pSt, err2 := participle.Build[c18S](participle.Lexer(c18Lex), participle.Elide("WS"), participle.Unquote("String"))
	if err1 != nil || err2 != nil || err1b != nil {
		c.Violation("", "build", fmt.Sprintf("Unquote parsers do not build: %v %v %v", err1, err1b, err2), nil)
		return
	}
	n := c.N(20000, 600000)
	r := c.RNG("strings")
	for i := 0; i < n; i++ {
		s := c18String(r)
		key := fmt.Sprintf("u%d", i)
		if !c.Want(key) {
			continue
		}
		c.Begin(key, strconv.Quote(s))
		type form struct {
			name   string
			lit    string
			parser string
		}
		var forms []form
		forms = append(forms, form{"double-quoted/default-lexer", strconv.Quote(s), "def"}, form{"double-quoted/stateful-lexer", strconv.Quote(s), "st"})
		if i%5 == 0 {
			forms = append(forms, form{"double-quoted/Unquote()-default-types", strconv.Quote(s), "default"})
		}
		if strconv.CanBackquote(s) {
			forms = append(forms, form{"back-quoted/default-lexer", "`" + s + "`", "def"}, form{"back-quoted/stateful-lexer", "`" + s + "`", "st"})
		} else if !strings.Contains(s, "`") && utf8.ValidString(s) && !strings.ContainsAny(s, "\x00\ufeff") {
			// s does not "permit" back-quoting by strconv's rule (control characters), but the token is still a Go
			// raw string literal: its unquoted value is what strconv.Unquote says (carriage returns are discarded)
			forms = append(forms, form{"back-quoted-raw/stateful-lexer", "`" + s + "`", "st"})
		}
		forms = append(forms, form{"single-quoted/stateful-lexer", singleQuoted(s), "st"})
		if utf8.ValidString(s) && utf8.RuneCountInString(s) == 1 {
			forms = append(forms, form{"single-quoted-char/default-lexer", strconv.QuoteRune([]rune(s)[0]), "def"})
		}
		for fi, f := range forms {
			c.Eval(1)
			input := "pre " + f.lit + " post"
			var got []string
			var perr error
			pn, pv, st := mon.Guard(func() {
				switch f.parser {
				case "def":
					var g *c18G
					g, perr = c18Via(pDef, fi, input)
					if g != nil {
						got = g.V
					}
				case "default":
					var g *c18G
					g, perr = c18Via(pDefault, fi, input)
					if g != nil {
						got = g.V
					}
				default:
					var g *c18S
					g, perr = c18Via(pSt, fi, input)
					if g != nil {
						got = g.V
					}
				}
			})
			report := func(class, what string) {
				c.Violation(class, key, fmt.Sprintf("%s | %s, s=%q, literal %s", what, f.name, s, f.lit), map[string]interface{}{"s": s, "literal": f.lit, "form": f.name, "difference": what})
			}
			switch {
			case pn:
				report("", "Unquote/parse panicked: "+pv+" at "+st)
			case perr != nil:
				report("", fmt.Sprintf("parsing the literal failed: %v", perr))
			case len(got) != 3 || got[0] != "pre" || got[2] != "post":
				report("", fmt.Sprintf("captured %q, expected [pre <s> post]", got))
			case f.name == "back-quoted-raw/stateful-lexer":
				if want, err := strconv.Unquote(f.lit); err == nil && got[1] != want {
					report("", fmt.Sprintf("captured %q, the raw string literal's value is %q", got[1], want))
				}
			case got[1] != s:
				report("", fmt.Sprintf("captured %q, expected exactly s", got[1]))
			}
			if strings.HasPrefix(f.name, "back") {
				c.Feature("backquoted_literals")
				if strings.Contains(s, "\\") {
					c.Feature("backquoted_literals_containing_backslashes")
				}
			}
			if strings.HasPrefix(f.name, "single") {
				c.Feature("singlequoted_literals")
			}
		}
		if !utf8.ValidString(s) {
			c.Feature("strings_with_invalid_utf8_bytes")
		}
		if strings.ContainsAny(s, "\"'`\\\n") || !utf8.ValidString(s) {
			c.Nontrivial("unquote:" + s)
			if i%997 == 0 {
				c.Sample(map[string]interface{}{"s": s, "double_quoted": strconv.Quote(s), "forms": len(forms)})
			}
		}
		c.End(key)
	}
	// invalid escapes are reported as located errors
	bad := []string{`"\q"`, `"a\xZZ"`, `"\u12"`, `'\q'`, `"\400"`, `"ab\"`, `'\x'`, `"\UFFFFFFFF"`, `"\ud800"`}
	for i, lit := range bad {
		key := fmt.Sprintf("bad%d", i)
		if !c.Want(key) {
			continue
		}
		c.Eval(1)
		input := "pre\n  " + lit + " post"
		var perr error
		pn, pv, _ := mon.Guard(func() { _, perr = pSt.ParseString("q.txt", input) })
		switch {
		case pn:
			c.Violation("", key, "parse of invalid escape panicked: "+pv+" | literal "+lit, nil)
		case perr == nil:
			if _, uerr := strconv.Unquote(lit); uerr != nil && lit[0] == '"' {
				c.Violation("", key, fmt.Sprintf("invalid escape sequence in %s accepted silently (strconv.Unquote: %v)", lit, uerr), map[string]interface{}{"literal": lit})
			}
		default:
			pe, ok := perr.(participle.Error)
			if !ok {
				c.Violation("", key, fmt.Sprintf("error %T for invalid escape is not a participle.Error", perr), nil)
			} else if l, col := pe.Position().Line, pe.Position().Column; !(l == 2 && col == 3) && !(l == 1 || l == 2) {
				c.Violation("", key, fmt.Sprintf("invalid escape error not located in the input: %v", pe.Position()), nil)
			} else if pe.Position().Line == 0 {
				c.Violation("", key, "invalid escape error carries no position", nil)
			}
			c.Feature("invalid_escapes_rejected_with_located_error")
		}
		c.Nontrivial("bad:" + lit)
	}
	c18Combined(c)
	c18Chained(c)
	c18Retype(c)
	// Upper and Map: exactly the selected types, positions untouched, each token once, in order, before elision.
	nm := c.N(3000, 20000)
	words := []string{"abc", "Hello", "x1", "ünï", "éü", "привет_1", "ñ2", "ǆ", "ß", "ÀB", "12", "7", `"q s"`, "'c'", "`r`", "-", ";", ","}
	typeSets := [][]string{{"Ident"}, {"Num"}, {"Ident", "Num"}, {"String"}, {"WS"}, {}, {"Punct", "Ident"}}
	for i := 0; i < nm; i++ {
		key := fmt.Sprintf("m%d", i)
		if !c.Want(key) {
			continue
		}
		rr := c.RNG("map", i)
		var sb strings.Builder
		for k := rr.Range(0, 9); k > 0; k-- {
			sb.WriteString(words[rr.Intn(len(words))])
			sb.WriteString(rr.Pick(" ", "  ", "\n", "\t "))
		}
		input := sb.String()
		sel := typeSets[i%len(typeSets)]
		c.Begin(key, fmt.Sprintf("mappers %v <- %q", sel, input))
		c.Eval(1)
		raw, lerr := lexer.ConsumeAll(mustLex(c18Lex.LexString("m.txt", input)))
		if lerr != nil {
			c.End(key)
			continue
		}
		sym := c18Lex.Symbols()
		selected := map[lexer.TokenType]bool{}
		for _, s := range sel {
			selected[sym[s]] = true
		}
		// Upper
		if len(sel) > 0 {
			pu, err := participle.Build[c18S](participle.Lexer(c18Lex), participle.Elide("WS"), participle.Upper(sel...))
			if err != nil {
				c.Violation("", key, "Upper parser does not build: "+err.Error(), nil)
			} else {
				mapped, merr := pu.Lex("m.txt", strings.NewReader(input))
				if merr != nil || len(mapped) != len(raw) {
					c.Violation("", key, fmt.Sprintf("Upper(%v): mapped stream has %d tokens (err %v), raw stream %d | input %q", sel, len(mapped), merr, len(raw), input), nil)
				} else {
					for j := range raw {
						want := raw[j]
						if selected[want.Type] {
							want.Value = strings.ToUpper(want.Value)
						}
						if mapped[j] != want {
							c.Violation("", key, fmt.Sprintf("Upper(%v): token #%d is %#v, expected %#v | input %q", sel, j, mapped[j], want, input), map[string]interface{}{"input": input, "types": sel})
							break
						}
					}
				}
				c.Feature("upper_streams_compared")
			}
		}
		// custom Map with a call log
		var log []lexer.Token
		pm, err := participle.Build[c18S](participle.Lexer(c18Lex), participle.Elide("WS"), participle.Map(func(t lexer.Token) (lexer.Token, error) {
			log = append(log, t)
			return t, nil
		}, sel...))
		if err != nil {
			c.Violation("", key, "Map parser does not build: "+err.Error(), nil)
			c.End(key)
			continue
		}
		log = nil
		switch i % 4 { // the mappers sit behind every entry point
		case 0:
			_, _ = pm.ParseString("m.txt", input)
		case 1:
			_, _ = pm.ParseBytes("m.txt", []byte(input))
		case 2:
			_, _ = pm.Parse("m.txt", strings.NewReader(input))
		default:
			if lx, err := pm.Lexer().Lex("m.txt", strings.NewReader(input)); err == nil {
				if pl, err := lexer.Upgrade(lx, elidedTypes(pm.Lexer(), []string{"WS"})...); err == nil {
					_, _ = pm.ParseFromLexer(pl)
				}
			}
		}
		var want []lexer.Token
		for _, t := range raw {
			if t.Type == lexer.EOF {
				continue
			}
			if len(sel) == 0 || selected[t.Type] {
				want = append(want, t)
			}
		}
		var gotLog []lexer.Token
		for _, t := range log {
			if t.Type != lexer.EOF {
				gotLog = append(gotLog, t)
			}
		}
		if d := sameStream(gotLog, want); d != "" {
			c.Violation("", key, fmt.Sprintf("Map(%v) call log differs from the selected tokens of the stream (once each, in order, before elision): %s | input %q", sel, d, input), map[string]interface{}{"input": input, "types": sel})
		}
		c.Feature("map_call_logs_compared")
		if len(raw) >= 4 {
			c.Nontrivial(fmt.Sprintf("map:%v:%s", sel, input))
		}
		c.End(key)
	}
}

// c18Combined checks a parser with several mapper options selecting different
// token types at once: each token must get exactly its own type's mappers.
func c18Combined(c *mon.Child) {
	var log []lexer.Token
	p, err := participle.Build[c18S](participle.Lexer(c18Lex), participle.Elide("WS"),
		participle.Unquote("String"), participle.Upper("Ident"),
		participle.Map(func(t lexer.Token) (lexer.Token, error) {
			log = append(log, t)
			t.Value = "<" + t.Value + ">"
			return t, nil
		}, "Num"))
	if err != nil {
		c.Violation("", "combined", "parser with Unquote+Upper+Map does not build: "+err.Error(), nil)
		return
	}
	sym := c18Lex.Symbols()
	words := []string{"abc", "Hello", "x1", "12", "7", `"q s"`, `"a\"b"`, "'c d'", "`r w`", "-", ";"}
	n := c.N(3000, 20000)
	for i := 0; i < n; i++ {
		key := fmt.Sprintf("cmb%d", i)
		if !c.Want(key) {
			continue
		}
		rr := c.RNG("combined", i)
		var sb strings.Builder
		for k := rr.Range(1, 9); k > 0; k-- {
			sb.WriteString(words[rr.Intn(len(words))])
			sb.WriteString(rr.Pick(" ", "  ", "\n"))
		}
		input := sb.String()
		c.Begin(key, fmt.Sprintf("combined mappers <- %q", input))
		c.Eval(1)
		raw, lerr := lexer.ConsumeAll(mustLex(c18Lex.LexString("c.txt", input)))
		if lerr != nil {
			c.End(key)
			continue
		}
		log = nil
		var mapped []lexer.Token
		var merr error
		if pn, pv, _ := mon.Guard(func() { mapped, merr = p.Lex("c.txt", strings.NewReader(input)) }); pn {
			c.Violation("", key, "Parser.Lex with combined mappers panicked: "+pv+fmt.Sprintf(" | input %q", input), nil)
			c.End(key)
			continue
		}
		if merr != nil || len(mapped) != len(raw) {
			c.Violation("", key, fmt.Sprintf("combined mappers: %d mapped tokens (err %v), %d raw tokens | input %q", len(mapped), merr, len(raw), input), nil)
			c.End(key)
			continue
		}
		for j, t := range raw {
			want := t
			switch t.Type {
			case sym["String"]:
				if u, err := strconv.Unquote(t.Value); err == nil {
					want.Value = u
				} else if t.Value[0] == '\'' {
					want.Value = strings.ReplaceAll(t.Value[1:len(t.Value)-1], `\'`, "'")
				}
			case sym["Ident"]:
				want.Value = strings.ToUpper(t.Value)
			case sym["Num"]:
				want.Value = "<" + t.Value + ">"
			}
			if mapped[j] != want {
				c.Violation("", key, fmt.Sprintf("combined Unquote(String)+Upper(Ident)+Map(Num): token #%d is %#v, expected %#v | input %q", j, mapped[j], want, input), map[string]interface{}{"input": input})
				break
			}
		}
		c.Feature("combined_mapper_streams_compared")
		if len(raw) >= 4 {
			c.Nontrivial("combined:" + input)
		}
		c.End(key)
	}
}

// c18Retype: an all-token mapper that changes token types runs first; the per-type mappers
// must still be selected by the type the lexer gave the token (the "selected types" of the stream).
func c18Retype(c *mon.Child) {
	sym := c18Lex.Symbols()
	var log []lexer.Token
	p, err := participle.Build[c18S](participle.Lexer(c18Lex), participle.Elide("WS"),
		participle.Map(func(t lexer.Token) (lexer.Token, error) {
			if t.Type == sym["Ident"] && len(t.Value) > 2 {
				t.Type = sym["Num"]
			}
			return t, nil
		}),
		participle.Upper("Ident"),
		participle.Map(func(t lexer.Token) (lexer.Token, error) { log = append(log, t); return t, nil }, "Num"))
	if err != nil {
		c.Violation("", "retype", "parser with a retyping mapper does not build: "+err.Error(), nil)
		return
	}
	for i, input := range []string{"abc 12 x hello 7", "ab abc abcd 1", "hello", "1 2 three"} {
		key := fmt.Sprintf("retype%d", i)
		if !c.Want(key) {
			continue
		}
		c.Eval(1)
		raw, _ := lexer.ConsumeAll(mustLex(c18Lex.LexString("r.txt", input)))
		log = nil
		mapped, merr := p.Lex("r.txt", strings.NewReader(input))
		if merr != nil || len(mapped) != len(raw) {
			c.Violation("", key, fmt.Sprintf("retyping mapper: %d mapped tokens (err %v), %d raw", len(mapped), merr, len(raw)), nil)
			continue
		}
		var wantLog []string
		for j, t := range raw {
			want := t
			if t.Type == sym["Ident"] {
				want.Value = strings.ToUpper(t.Value)
				if len(t.Value) > 2 {
					want.Type = sym["Num"]
				}
			}
			if t.Type == sym["Num"] {
				wantLog = append(wantLog, t.Value)
			}
			if mapped[j] != want {
				c.Violation("", key, fmt.Sprintf("untargeted retyping Map + Upper(Ident) + Map(Num): token #%d is %#v, expected %#v (mappers are selected by the lexed type) | input %q", j, mapped[j], want, input), map[string]interface{}{"input": input})
				break
			}
		}
		var gotLog []string
		for _, t := range log {
			gotLog = append(gotLog, t.Value)
		}
		if strings.Join(gotLog, ",") != strings.Join(wantLog, ",") {
			c.Violation("", key, fmt.Sprintf("Map(f, Num) saw %v, the stream's Num tokens are %v | input %q", gotLog, wantLog, input), nil)
		}
		c.Feature("retyping_mapper_cases")
		c.Nontrivial("retype:" + input)
	}
}

func mustLex(l lexer.Lexer, err error) lexer.Lexer {
	if err != nil {
		panic(err)
	}
	return l
}

func init() {
	Register(&mon.Spec{
		ID:          "C18",
		Rule:        "case = string s over an alphabet of quotes of all three styles, backslashes, literal backslash-n, newlines, tabs, CR, NUL, non-ASCII, astral runes, U+2028 and invalid UTF-8 bytes. Parsing strconv.Quote(s), s between back-quotes when strconv.CanBackquote(s), and the single-quoted form must capture exactly s, through the default text/scanner lexer (String/RawString/Char) and through a stateful lexer with a three-style String rule; invalid escapes must give a located participle.Error. Upper(types): Parser.Lex compared token by token with the raw definition's stream (selected types upper-cased, everything else and all positions equal). Map(f, types): f's call log must be the non-EOF tokens of the selected types, once each, in stream order, elided tokens included. Non-trivial: s contains a quote, backslash, newline or invalid UTF-8 / a mapped stream of >=3 tokens. Distinct by s / (types, input). Parses rotate over ParseString, ParseBytes and Parse(reader); identifiers include words whose lower-case letters are all non-ASCII.",
		Assumptions: []string{"the expected value of a single-quoted literal follows strconv's escape rules with ' escaped and \" bare"},
		Batches:     func(t string) int { return 1 },
		Floor:       func(t string) int { return pick(t, 3000, 20000) },
		TimeoutSec:  func(t string) int { return pick(t, 120, 1800) },
		Child:       c18Child,
	})
}

// c18Via parses through one of the four entry points (the token mappers sit behind all of them;
// ParseFromLexer is fed from the parser's own Lexer() definition, with "WS" elided where the lexer has it).
func c18Via[G any](p *participle.Parser[G], which int, input string) (*G, error) {
	switch which % 4 {
	case 1:
		return p.ParseBytes("q.txt", []byte(input))
	case 2:
		return p.Parse("q.txt", strings.NewReader(input))
	case 3:
		lx, err := p.Lexer().Lex("q.txt", strings.NewReader(input))
		if err != nil {
			return nil, err
		}
		pl, err := lexer.Upgrade(lx, elidedTypes(p.Lexer(), []string{"WS"})...)
		if err != nil {
			return nil, err
		}
		return p.ParseFromLexer(pl)
	}
	return p.ParseString("q.txt", input)
}

// c18Chained: several Map options made from one function literal (in a loop)
// for the same token type, and several all-token mappers: every one of them
// is applied, once, in option order.
func c18Chained(c *mon.Child) {
	mk := func(sfx string, types ...string) participle.Option {
		return participle.Map(func(t lexer.Token) (lexer.Token, error) {
			if t.Type != lexer.EOF {
				t.Value += sfx
			}
			return t, nil
		}, types...)
	}
	typed := []participle.Option{participle.Lexer(c18Lex), participle.Elide("WS")}
	for _, sfx := range []string{"1", "2", "3"} {
		typed = append(typed, mk(sfx, "Ident"))
	}
	all := []participle.Option{participle.Lexer(c18Lex), participle.Elide("WS")}
	for _, sfx := range []string{"A", "B"} {
		all = append(all, mk(sfx))
	}
	mixed := []participle.Option{participle.Lexer(c18Lex), participle.Elide("WS")}
	for _, sfx := range []string{"x", "y"} {
		mixed = append(mixed, mk(sfx, "Ident", "Num"), mk(sfx+sfx, "Num"))
	}
	cases := []struct {
		desc string
		opts []participle.Option
		want func(name, v string) string
	}{
		{"three Map options from one literal on Ident", typed, func(name, v string) string {
			if name == "Ident" {
				return v + "123"
			}
			return v
		}},
		{"two all-token Map options from one literal", all, func(name, v string) string { return v + "AB" }},
		{"overlapping selections from one literal", mixed, func(name, v string) string {
			switch name {
			case "Ident":
				return v + "xy"
			case "Num":
				return v + "xxxyyy"
			}
			return v
		}},
	}
	names := map[lexer.TokenType]string{}
	for n, t := range c18Lex.Symbols() {
		names[t] = n
	}
	for ci, tc := range cases {
		key := fmt.Sprintf("chain%d", ci)
		if !c.Want(key) {
			continue
		}
		c.Begin(key, "chained mappers: "+tc.desc)
		p, err := participle.Build[c18S](tc.opts...)
		if err != nil {
			c.Violation("", key, "parser with "+tc.desc+" does not build: "+err.Error(), nil)
			c.End(key)
			continue
		}
		for _, input := range []string{"abc 12 x", "7", "a", "a b c 1 2 ;", ""} {
			c.Eval(1)
			raw, lerr := lexer.ConsumeAll(mustLex(c18Lex.LexString("c.txt", input)))
			mapped, merr := p.Lex("c.txt", strings.NewReader(input))
			if lerr != nil || merr != nil || len(raw) != len(mapped) {
				c.Violation("", key, fmt.Sprintf("%s: %d mapped tokens (err %v), %d raw (err %v) | input %q", tc.desc, len(mapped), merr, len(raw), lerr, input), nil)
				continue
			}
			for j, t := range raw {
				want := t
				if t.Type != lexer.EOF {
					want.Value = tc.want(names[t.Type], t.Value)
				}
				if mapped[j] != want {
					c.Violation("", key, fmt.Sprintf("%s: token #%d is %#v, expected %#v (every mapper once, in option order) | input %q", tc.desc, j, mapped[j], want, input), map[string]interface{}{"input": input})
					break
				}
			}
		}
		c.Nontrivial("chain:" + tc.desc)
		c.Feature("chained_mapper_parsers_checked")
		c.End(key)
	}
}
