package props

import (
	"fmt"
	"math"
	"reflect"
	"strconv"
	"strings"

	"github.com/alecthomas/participle/v2"
	"github.com/alecthomas/participle/v2/lexer"

	"verifharness/mon"
)

// C17: numeric captures convert exactly or fail with a located error.

type (
	nI8  int8
	nI16 int16
	nI32 int32
	nI64 int64
	nI   int
	nU8  uint8
	nU16 uint16
	nU32 uint32
	nU64 uint64
	nU   uint
	nF32 float32
	nF64 float64
)

type numKind struct {
	name  string
	typ   reflect.Type
	named reflect.Type
	class string // int uint float
	bits  int
}

var numKinds = []numKind{
	{"int8", reflect.TypeOf(int8(0)), reflect.TypeOf(nI8(0)), "int", 8},
	{"int16", reflect.TypeOf(int16(0)), reflect.TypeOf(nI16(0)), "int", 16},
	{"int32", reflect.TypeOf(int32(0)), reflect.TypeOf(nI32(0)), "int", 32},
	{"int64", reflect.TypeOf(int64(0)), reflect.TypeOf(nI64(0)), "int", 64},
	{"int", reflect.TypeOf(int(0)), reflect.TypeOf(nI(0)), "int", strconv.IntSize},
	{"uint8", reflect.TypeOf(uint8(0)), reflect.TypeOf(nU8(0)), "uint", 8},
	{"uint16", reflect.TypeOf(uint16(0)), reflect.TypeOf(nU16(0)), "uint", 16},
	{"uint32", reflect.TypeOf(uint32(0)), reflect.TypeOf(nU32(0)), "uint", 32},
	{"uint64", reflect.TypeOf(uint64(0)), reflect.TypeOf(nU64(0)), "uint", 64},
	{"uint", reflect.TypeOf(uint(0)), reflect.TypeOf(nU(0)), "uint", strconv.IntSize},
	{"float32", reflect.TypeOf(float32(0)), reflect.TypeOf(nF32(0)), "float", 32},
	{"float64", reflect.TypeOf(float64(0)), reflect.TypeOf(nF64(0)), "float", 64},
}

// lexers: any run of non-space characters is one Tok.
var (
	c17LexLower = lexer.MustSimple([]lexer.SimpleRule{{Name: "Minus", Pattern: `-`}, {Name: "Tok", Pattern: `[^\s-][^\s]*`}, {Name: "ws", Pattern: `\s+`}})
	c17LexElide = lexer.MustSimple([]lexer.SimpleRule{{Name: "Minus", Pattern: `-`}, {Name: "Tok", Pattern: `[^\s-][^\s]*`}, {Name: "WS", Pattern: `\s+`}})
)

// oracle: strconv with the field's bit size.
type numExp struct {
	err error
	i   int64
	u   uint64
	f   float64
}

func numOracle(k numKind, text string) numExp {
	switch k.class {
	case "int":
		v, err := strconv.ParseInt(text, 0, k.bits)
		return numExp{err: err, i: v}
	case "uint":
		v, err := strconv.ParseUint(text, 0, k.bits)
		return numExp{err: err, u: v}
	}
	v, err := strconv.ParseFloat(text, k.bits)
	return numExp{err: err, f: v}
}

func numEqual(k numKind, v reflect.Value, e numExp) (bool, string) {
	for v.Kind() == reflect.Ptr {
		if v.IsNil() {
			return false, "nil pointer"
		}
		v = v.Elem()
	}
	switch k.class {
	case "int":
		return v.Int() == e.i, fmt.Sprint(v.Int())
	case "uint":
		return v.Uint() == e.u, fmt.Sprint(v.Uint())
	}
	got := v.Float()
	want := e.f
	if k.bits == 32 {
		return math.Float32bits(float32(got)) == math.Float32bits(float32(want)) || (math.IsNaN(got) && math.IsNaN(want)), fmt.Sprint(got)
	}
	return math.Float64bits(got) == math.Float64bits(want) || (math.IsNaN(got) && math.IsNaN(want)), fmt.Sprint(got)
}

func c17Texts(k numKind, r *mon.RNG, n int) []string {
	out := []string{"0", "1", "-1", "+5", "-0", "007", "0x1F", "0X1f", "0o17", "0b101", "1_000", "0x_FF", "1__0", "_1", "1_", "12a", "0x", "1e3", "1.5", ".5", "5.", "--1", "+-1", "٣"}
	if k.class != "float" {
		b := uint(k.bits)
		var max, min string
		if k.class == "int" {
			hi := new(bigInt).pow2(b - 1)
			max = hi.subStr(1)
			min = "-" + hi.str()
			out = append(out, max, hi.str(), hi.addStr(1), min, "-"+hi.addStr(1), "-"+hi.subStr(1))
			out = append(out, "0x"+strings.Repeat("f", int(b/4)), "0x7"+strings.Repeat("f", int(b/4)-1), "0x8"+strings.Repeat("0", int(b/4)-1), "-0x8"+strings.Repeat("0", int(b/4)-1), "-0x8"+strings.Repeat("0", int(b/4)-2)+"1")
		} else {
			hi := new(bigInt).pow2(b)
			out = append(out, hi.subStr(1), hi.str(), hi.addStr(1), hi.subStr(2), "0x"+strings.Repeat("f", int(b/4)), "0x1"+strings.Repeat("0", int(b/4)), "0b"+strings.Repeat("1", int(b)), "0b1"+strings.Repeat("0", int(b)))
		}
		out = append(out, "99999999999999999999", "-99999999999999999999", "18446744073709551615", "18446744073709551616", "9223372036854775807", "9223372036854775808", "-9223372036854775808", "-9223372036854775809", "127", "128", "-128", "-129", "255", "256", "32767", "32768", "65535", "65536", "2147483647", "2147483648", "4294967295", "4294967296")
	} else {
		out = append(out, "1e309", "-1e309", "1e308", "1.7976931348623157e308", "1.7976931348623159e308", "3.4028234e38", "3.4028236e38", "3.5e38", "-3.5e38", "1e39", "1e-46", "1e-50", "1e-330", "4.9e-324", "0x1p-2", "0x1.8p1", "0x1p", "0x.8p0", "Inf", "+Inf", "-Inf", "inf", "infinity", "-Infinity", "NaN", "nan", "+NaN", "1_0.5", "1e1_0", "1e+3", "1E-3", "1.5e", "16777217", "0.1", "0.30000000000000004", "3.4028235677973366e38")
	}
	// random numerals
	for i := 0; i < n; i++ {
		var sb strings.Builder
		if r.Chance(1, 4) {
			sb.WriteString(r.Pick("-", "+"))
		}
		switch r.Intn(5) {
		case 0:
			sb.WriteString(r.Pick("0x", "0X", "0b", "0o", "0"))
		}
		for d := r.Range(1, 22); d > 0; d-- {
			sb.WriteString(r.Pick("0", "1", "2", "3", "7", "8", "9", "9", "f", "_", ".", "e"))
		}
		out = append(out, sb.String())
	}
	return out
}

// bigInt: tiny decimal helper for 2^b±1 texts without math/big noise.
type bigInt struct{ v [2]uint64 } // only needs up to 2^64

func (b *bigInt) pow2(n uint) *bigInt {
	if n >= 64 {
		b.v = [2]uint64{0, 1}
	} else {
		b.v = [2]uint64{1 << n, 0}
	}
	return b
}
func (b *bigInt) str() string {
	if b.v[1] == 1 {
		return "18446744073709551616"
	}
	return strconv.FormatUint(b.v[0], 10)
}
func (b *bigInt) addStr(n uint64) string {
	if b.v[1] == 1 {
		return "1844674407370955161" + strconv.FormatUint(6+n, 10)
	}
	return strconv.FormatUint(b.v[0]+n, 10)
}
func (b *bigInt) subStr(n uint64) string {
	if b.v[1] == 1 {
		return strconv.FormatUint(math.MaxUint64-n+1, 10)
	}
	return strconv.FormatUint(b.v[0]-n, 10)
}

type c17Template struct {
	name   string
	typ    reflect.Type // struct type wrapped in Union[any]
	field  func(k numKind) reflect.Type
	tag    string
	joined bool
	slice  bool
}

func c17Struct(ft reflect.Type, tag string) reflect.Type {
	return reflect.StructOf([]reflect.StructField{{Name: "V", Type: ft, Tag: reflect.StructTag(tag)}})
}

// c17Build builds a parser for a dynamically made struct type through the
// public Build, as the only member of Union[any].
func c17Build(st reflect.Type, opts ...participle.Option) (*participle.Parser[any], error) {
	zero := reflect.New(st).Elem().Interface()
	all := append([]participle.Option{participle.Union[any](zero)}, opts...)
	var p *participle.Parser[any]
	var err error
	if pn, pv, _ := mon.Guard(func() { p, err = participle.Build[any](all...) }); pn {
		return nil, fmt.Errorf("Build panicked: %s", pv)
	}
	return p, err
}

func c17Field(res *any) reflect.Value {
	v := reflect.ValueOf(*res)
	for v.Kind() == reflect.Ptr || v.Kind() == reflect.Interface {
		v = v.Elem()
	}
	return v.FieldByName("V")
}

// c17Lists: a conversion that fails at the end of a production which, on the
// way, tried an optional part further ahead and gave it up. The error the
// caller gets is the conversion error at the captured token, not whatever the
// abandoned look ahead had met.
//
//	Item = @Tok ( Minus Minus @Tok )? ;  List = @@ ( Minus @@ )*
func c17Lists(c *mon.Child) {
	for ki, k := range numKinds {
		item := reflect.StructOf([]reflect.StructField{
			{Name: "V", Type: k.typ, Tag: `@Tok`},
			{Name: "Tag", Type: reflect.TypeOf(""), Tag: `( Minus Minus @Tok )?`},
		})
		list := reflect.StructOf([]reflect.StructField{{Name: "Items", Type: reflect.SliceOf(reflect.PtrTo(item)), Tag: `@@ ( Minus @@ )*`}})
		p, err := c17Build(list, participle.Lexer(c17LexLower))
		if err != nil {
			c.Violation("", "build.list."+k.name, "list template does not build: "+err.Error(), nil)
			continue
		}
		texts := c17Texts(k, c.RNG("listtexts", k.name), c.N(60, 2000))
		for ti, text := range texts {
			if strings.ContainsAny(text, "- \t\n\r") || text == "" {
				continue
			}
			key := fmt.Sprintf("l%d.t%d", ki, ti)
			if !c.Want(key) {
				continue
			}
			// second item: a valid number, or a word (then the second item's conversion is the one that fails)
			input := text + " - 5"
			c.Begin(key, fmt.Sprintf("%s list <- %q", k.name, input))
			c.Eval(1)
			e := numOracle(k, text)
			var res *any
			var perr error
			pn, pv, st := mon.Guard(func() { res, perr = p.ParseString("l.txt", input) })
			desc := fmt.Sprintf("%s field, template list-item-with-abandoned-lookahead (Item = @Tok ( Minus Minus @Tok )? ; List = @@ ( Minus @@ )*), input %q", k.name, input)
			report := func(what string) {
				c.Violation("", key, what+" | "+desc, map[string]interface{}{"kind": k.name, "template": "list", "input": input, "difference": what})
			}
			switch {
			case pn:
				report("parse panicked: " + pv + " at " + st)
			case e.err == nil:
				c.Feature("list_conversions_accepted")
				if perr != nil {
					report(fmt.Sprintf("strconv accepts %q but the parse failed: %v", text, perr))
					break
				}
				v := reflect.ValueOf(*res)
				for v.Kind() == reflect.Ptr || v.Kind() == reflect.Interface {
					v = v.Elem()
				}
				items := v.FieldByName("Items")
				if items.Len() != 2 {
					report(fmt.Sprintf("%d items, the input has 2", items.Len()))
				} else if ok, got := numEqual(k, items.Index(0).Elem().FieldByName("V"), e); !ok {
					report(fmt.Sprintf("stored %s, strconv says %v", got, fmtExp(k, e)))
				}
			default:
				c.Feature("list_conversions_rejected_after_an_abandoned_lookahead")
				if perr == nil {
					report(fmt.Sprintf("strconv rejects %q (%v) but the parse succeeded", text, e.err))
					break
				}
				pe, ok := perr.(participle.Error)
				if !ok {
					report(fmt.Sprintf("error %T does not satisfy participle.Error: %v", perr, perr))
					break
				}
				if !strings.Contains(pe.Message(), e.err.Error()) {
					report(fmt.Sprintf("error message %q does not name the conversion error %q", pe.Message(), e.err.Error()))
				}
				if pe.Position().Offset != 0 {
					report(fmt.Sprintf("conversion error located at offset %d (%v), the captured token is at offset 0", pe.Position().Offset, pe.Position()))
				}
				if len(text) >= 3 {
					c.Nontrivial(k.name + "\x00list\x00" + input)
				}
			}
			c.End(key)
		}
	}
}

func c17Child(c *mon.Child) {
	c17Lists(c)
	type variant struct {
		name  string
		ft    func(k numKind) reflect.Type
		tag   string
		mode  string // scalar slice joined alt
		elide bool
	}
	variants := []variant{
		{"scalar", func(k numKind) reflect.Type { return k.typ }, `@Tok`, "scalar", false},
		{"named", func(k numKind) reflect.Type { return k.named }, `@Tok`, "scalar", false},
		{"pointer", func(k numKind) reflect.Type { return reflect.PtrTo(k.typ) }, `@Tok`, "scalar", false},
		{"pointer-to-named", func(k numKind) reflect.Type { return reflect.PtrTo(k.named) }, `parser:"@Tok"`, "scalar", false},
		{"slice", func(k numKind) reflect.Type { return reflect.SliceOf(k.typ) }, `@Tok+`, "slice", false},
		{"slice-of-named", func(k numKind) reflect.Type { return reflect.SliceOf(k.named) }, `( @Tok )+`, "slice", false},
		{"slice-single-capture", func(k numKind) reflect.Type { return reflect.SliceOf(k.typ) }, `@( Tok+ )`, "slice", false},
		{"slice-single-capture-of-named", func(k numKind) reflect.Type { return reflect.SliceOf(k.named) }, `@( Tok Tok? Tok? )`, "slice", false},
		{"two-captures-one-scalar", func(k numKind) reflect.Type { return k.typ }, `@Tok @Tok`, "two", false},
		{"two-captures-one-named-pointer", func(k numKind) reflect.Type { return reflect.PtrTo(k.named) }, `@Tok @Tok`, "two", false},
		{"joined", func(k numKind) reflect.Type { return k.typ }, `@( Minus? Tok )`, "joined", false},
		{"joined-ending-in-a-negation", func(k numKind) reflect.Type { return k.typ }, `@( Minus? ~Minus )`, "joined", false},
		{"joined-named-pointer", func(k numKind) reflect.Type { return reflect.PtrTo(k.named) }, `@( Minus Minus? Tok | Tok )`, "joined", false},
		{"scalar-elide-option", func(k numKind) reflect.Type { return k.typ }, `@Tok`, "scalar", true},
		{"joined-elide-option", func(k numKind) reflect.Type { return k.typ }, `@( Minus? Tok )`, "joined", true},
		{"enclosing-alternative", nil, ``, "alt", false},
	}
	for ki, k := range numKinds {
		texts := c17Texts(k, c.RNG("texts", k.name), c.N(120, 20000))
		for vi, v := range variants {
			var p *participle.Parser[any]
			var err error
			lex := c17LexLower
			opts := []participle.Option{}
			if v.elide {
				lex = c17LexElide
				opts = append(opts, participle.Elide("WS"))
			}
			opts = append(opts, participle.Lexer(lex))
			var pk0 *participle.Parser[any]
			if v.mode == "alt" {
				inner := c17Struct(k.typ, `@Tok`)
				st := reflect.StructOf([]reflect.StructField{
					{Name: "A", Type: reflect.PtrTo(inner), Tag: `@@`},
					{Name: "S", Type: reflect.TypeOf(""), Tag: `| @Tok`},
				})
				p, err = c17Build(st, append(opts, participle.UseLookahead(1))...)
				if err == nil {
					pk0, err = c17Build(st, append(opts, participle.UseLookahead(0))...)
				}
			} else {
				p, err = c17Build(c17Struct(v.ft(k), v.tag), opts...)
			}
			if err != nil {
				c.Violation("", fmt.Sprintf("build.%s.%s", k.name, v.name), fmt.Sprintf("numeric template %s/%s does not build: %v", k.name, v.name, err), nil)
				continue
			}
			c.Feature("templates_" + v.name)
			for ti, text := range texts {
				key := fmt.Sprintf("k%d.v%d.t%d", ki, vi, ti)
				if !c.Want(key) {
					continue
				}
				// input and the captured text(s)
				input := text
				captured := []string{text}
				lead := []string{"", " ", "\n  "}[ti%3]
				switch v.mode {
				case "joined":
					if strings.HasPrefix(text, "-") {
						rest := strings.TrimLeft(text, "-")
						if rest == "" || strings.Count(text, "-") != len(text)-len(rest) || len(text)-len(rest) > 2 {
							continue
						}
						if strings.HasPrefix(v.tag, "@( Minus?") && len(text)-len(rest) > 1 {
							continue
						}
						input = strings.Join(strings.Split(text[:len(text)-len(rest)], ""), " ") + " " + rest
					}
					if strings.Contains(strings.TrimLeft(text, "-"), "-") {
						continue
					}
					captured = []string{text}
				case "slice", "two":
					n := 1 + ti%3
					if v.mode == "two" {
						// two separate captures of one scalar: each text is converted on its own, the later value stays
						n = 2
					}
					captured = nil
					var parts []string
					for j := 0; j < n; j++ {
						t := texts[(ti+j*7)%len(texts)]
						if strings.Contains(t, "-") {
							t = "7"
						}
						captured = append(captured, t)
						parts = append(parts, t)
					}
					input = strings.Join(parts, " ")
				default:
					if strings.Contains(strings.TrimLeft(text, "-"), "-") || strings.HasPrefix(text, "--") {
						continue
					}
				}
				if strings.HasPrefix(input, "-") && v.mode != "joined" {
					// "-5" lexes as Minus Tok; only the joined templates accept that
					if v.mode == "scalar" || v.mode == "alt" || v.mode == "slice" || v.mode == "two" {
						continue
					}
				}
				input = lead + input
				c.Begin(key, fmt.Sprintf("%s/%s <- %q", k.name, v.name, input))
				c.Eval(1)
				// expectation
				var exps []numExp
				firstBad := -1
				for i, t := range captured {
					e := numOracle(k, t)
					exps = append(exps, e)
					if e.err != nil && firstBad < 0 {
						firstBad = i
					}
				}
				var res *any
				var perr error
				pn, pv, st := mon.Guard(func() { res, perr = p.ParseString("n.txt", input) })
				desc := fmt.Sprintf("%s field, template %s (%s), input %q", k.name, v.name, v.tag, input)
				report := func(class, what string) {
					c.Violation(class, key, what+" | "+desc, map[string]interface{}{"kind": k.name, "template": v.name, "input": input, "difference": what})
				}
				if pn {
					report("", "parse panicked: "+pv+" at "+st)
					c.End(key)
					continue
				}
				if v.mode == "alt" {
					// lookahead 1: a failed conversion is abandoned and the string alternative accepts
					e := exps[0]
					if perr != nil {
						report("", fmt.Sprintf("parse failed (%v) although an enclosing alternative accepts the input", perr))
					} else {
						root := reflect.ValueOf(*res)
						for root.Kind() == reflect.Ptr || root.Kind() == reflect.Interface {
							root = root.Elem()
						}
						a, s := root.FieldByName("A"), root.FieldByName("S").String()
						if e.err == nil {
							if a.IsNil() || s != "" {
								report("", fmt.Sprintf("valid number: expected the numeric alternative, got A=nil:%v S=%q", a.IsNil(), s))
							} else if ok, got := numEqual(k, a.Elem().FieldByName("V"), e); !ok {
								report("", fmt.Sprintf("stored %s, strconv says %v", got, fmtExp(k, e)))
							}
						} else if !a.IsNil() || s != text {
							report("", fmt.Sprintf("conversion fails (%v): expected the string alternative to accept with S=%q, got A=nil:%v S=%q", e.err, text, a.IsNil(), s))
						}
					}
					// lookahead 0: the failure is committed
					var perr0 error
					mon.Guard(func() { _, perr0 = pk0.ParseString("n.txt", input) })
					if (perr0 == nil) != (e.err == nil) {
						report("", fmt.Sprintf("with lookahead 0 parse error=%v but strconv error=%v", perr0, e.err))
					}
					c.Nontrivial(key + input)
					c.End(key)
					continue
				}
				if firstBad < 0 {
					if perr != nil {
						report("", fmt.Sprintf("strconv accepts %q with bit size %d but the parse failed: %v", captured, k.bits, perr))
					} else {
						fv := c17Field(res)
						if v.mode == "slice" {
							if fv.Len() != len(captured) {
								report("", fmt.Sprintf("slice has %d elements, %d captured", fv.Len(), len(captured)))
							} else {
								for i := range captured {
									if ok, got := numEqual(k, fv.Index(i), exps[i]); !ok {
										report("", fmt.Sprintf("element %d: stored %s, strconv says %v for %q", i, got, fmtExp(k, exps[i]), captured[i]))
										break
									}
								}
							}
						} else if v.mode == "two" {
							if ok, got := numEqual(k, fv, exps[1]); !ok {
								report("", fmt.Sprintf("stored %s after two captures %q of the same field; the second capture's value is %v", got, captured, fmtExp(k, exps[1])))
							}
						} else if ok, got := numEqual(k, fv, exps[0]); !ok {
							report("", fmt.Sprintf("stored %s, strconv.Parse%s(%q, %d) says %v", got, strings.Title(k.class), captured[0], k.bits, fmtExp(k, exps[0])))
						}
					}
					c.Feature("conversions_accepted")
				} else {
					c.Feature("conversions_rejected")
					if perr == nil {
						fv := c17Field(res)
						report("", fmt.Sprintf("strconv rejects %q (%v) but the parse succeeded and stored %v silently", captured[firstBad], exps[firstBad].err, fv.Interface()))
					} else {
						pe, ok := perr.(participle.Error)
						if !ok {
							report("", fmt.Sprintf("error %T does not satisfy participle.Error: %v", perr, perr))
						} else {
							if !strings.Contains(pe.Message(), exps[firstBad].err.Error()) {
								report("", fmt.Sprintf("error message %q does not name the conversion error %q", pe.Message(), exps[firstBad].err.Error()))
							}
							// located at the first captured token
							wantOff := len(lead)
							if (v.mode == "slice" || v.mode == "two") && !strings.HasPrefix(v.name, "slice-single-capture") {
								// one capture per element; a single capture of several tokens is located at its first token
								wantOff = len(lead)
								for i := 0; i < firstBad; i++ {
									wantOff += len(captured[i]) + 1
								}
							}
							if pe.Position().Offset != wantOff {
								class := ""
								if v.elide && pe.Position().Offset == 0 && len(lead) > 0 {
									class = "conversion-error-at-elided-token"
								}
								report(class, fmt.Sprintf("conversion error located at offset %d (%v), the first captured token is at offset %d", pe.Position().Offset, pe.Position(), wantOff))
							}
						}
					}
				}
				nt := false
				for _, t := range captured {
					if len(t) >= 3 || strings.ContainsAny(t, "xXbo_.eEnN") {
						nt = true
					}
				}
				if nt {
					c.Nontrivial(fmt.Sprintf("%s/%s/%s", k.name, v.name, input))
					if ti%97 == 0 {
						c.Sample(map[string]interface{}{"kind": k.name, "template": v.name, "input": input, "strconv_error": fmt.Sprint(exps[0].err)})
					}
				}
				c.End(key)
			}
		}
	}
	// second pass, widest kinds first: a conversion must not depend on what was converted before
	// (the first pass went from narrow to wide; the same texts now meet the kinds in the opposite order)
	for ki := len(numKinds) - 1; ki >= 0; ki-- {
		k := numKinds[ki]
		p, err := c17Build(c17Struct(k.typ, `@Tok`), participle.Lexer(c17LexLower))
		if err != nil {
			continue
		}
		for ti, text := range c17Texts(k, c.RNG("texts", k.name), 0) {
			if strings.Contains(text, "-") {
				continue
			}
			key := fmt.Sprintf("r%d.t%d", ki, ti)
			if !c.Want(key) {
				continue
			}
			// texts of the neighbouring kinds as well: the same text meets several widths
			for _, other := range []numKind{numKinds[(ki+1)%len(numKinds)], numKinds[(ki+len(numKinds)-1)%len(numKinds)]} {
				if other.class != k.class {
					continue
				}
				po, err := c17Build(c17Struct(other.typ, `@Tok`), participle.Lexer(c17LexLower))
				if err == nil {
					mon.Guard(func() { _, _ = po.ParseString("", text) })
				}
			}
			c.Eval(1)
			e := numOracle(k, text)
			var res *any
			var perr error
			pn, pv, _ := mon.Guard(func() { res, perr = p.ParseString("", text) })
			switch {
			case pn:
				c.Violation("", key, fmt.Sprintf("parse panicked: %s | %s field, input %q (second pass)", pv, k.name, text), nil)
			case (e.err == nil) != (perr == nil):
				c.Violation("", key, fmt.Sprintf("after other conversions of the same text: strconv error=%v but parse error=%v | %s field, input %q", e.err, perr, k.name, text), map[string]interface{}{"kind": k.name, "input": text})
			case e.err == nil:
				if ok, got := numEqual(k, c17Field(res), e); !ok {
					c.Violation("", key, fmt.Sprintf("after other conversions of the same text: stored %s, strconv says %v | %s field, input %q", got, fmtExp(k, e), k.name, text), map[string]interface{}{"kind": k.name, "input": text})
				}
			}
			c.Feature("second_pass_wide_to_narrow_cases")
		}
	}
	// default lexer: Int / Float tokens
	type defT struct {
		kind numKind
		tag  string
	}
	for ki, k := range numKinds {
		tag := `@Int`
		if k.class == "float" {
			tag = `@( Float | Int )`
		}
		if k.class != "uint" {
			tag = `@( "-"? ` + tag[1:] + ` )`
		}
		p, err := c17Build(c17Struct(k.typ, tag))
		if err != nil {
			c.Violation("", "build.default."+k.name, "default-lexer template does not build: "+err.Error(), nil)
			continue
		}
		for ti, text := range c17Texts(k, c.RNG("dtexts", k.name), 60) {
			key := fmt.Sprintf("d%d.t%d", ki, ti)
			if !c.Want(key) {
				continue
			}
			// only texts the scanner lexes as a single (optionally signed) Int/Float token
			toks, lerr := lexer.ConsumeAll(lexer.LexString("", text))
			ok := lerr == nil && (len(toks) == 2 || (len(toks) == 3 && toks[0].Value == "-" && k.class != "uint"))
			if ok {
				last := toks[len(toks)-2]
				ok = last.Type == lexer.TokenType(-3) || last.Type == lexer.TokenType(-4) // scanner.Int / scanner.Float
				if k.class != "float" && last.Type != lexer.TokenType(-3) {
					ok = false
				}
			}
			if !ok {
				continue
			}
			c.Begin(key, fmt.Sprintf("default lexer %s <- %q", k.name, text))
			c.Eval(1)
			e := numOracle(k, text)
			var res *any
			var perr error
			pn, pv, _ := mon.Guard(func() { res, perr = p.ParseString("", text) })
			switch {
			case pn:
				c.Violation("", key, fmt.Sprintf("parse panicked: %s | default lexer, %s field, input %q", pv, k.name, text), nil)
			case e.err == nil && perr != nil:
				c.Violation("", key, fmt.Sprintf("strconv accepts %q but the parse failed: %v | default lexer, %s field", text, perr, k.name), nil)
			case e.err != nil && perr == nil:
				c.Violation("", key, fmt.Sprintf("strconv rejects %q (%v) but the parse stored %v | default lexer, %s field", text, e.err, c17Field(res).Interface(), k.name), nil)
			case e.err == nil:
				if ok, got := numEqual(k, c17Field(res), e); !ok {
					c.Violation("", key, fmt.Sprintf("stored %s, strconv says %v for %q | default lexer, %s field", got, fmtExp(k, e), text, k.name), nil)
				}
			}
			c.Feature("default_lexer_cases")
			c.Nontrivial("default/" + k.name + "/" + text)
			c.End(key)
		}
	}
}

func fmtExp(k numKind, e numExp) string {
	switch k.class {
	case "int":
		return fmt.Sprint(e.i)
	case "uint":
		return fmt.Sprint(e.u)
	}
	return fmt.Sprint(e.f)
}

func init() {
	Register(&mon.Spec{
		ID:          "C17",
		Rule:        "case = (numeric kind in int8..int64,int,uint8..uint64,uint,float32,float64; template in scalar, named type, pointer, pointer to named, slice, slice of named, joined '-' token(s) + number, Elide()-option lexer, enclosing alternative under lookahead 1 and 0; numeric text). Texts: the full boundary table of every width (2^(b-1), 2^b, +-1), hex/octal/binary forms of the limits, underscores, signs, exponents, hex floats, float32/float64 overflow and underflow limits, Inf/NaN words, junk, plus random numerals. Oracle: strconv.ParseInt/ParseUint/ParseFloat with the field's bit size: success => exactly that value (bitwise for floats); failure => a participle.Error whose message contains the strconv error and whose position is the first captured token, and no silent value; the enclosing-alternative template must fall through to the string alternative under lookahead 1 and fail under lookahead 0. Non-trivial: a captured text of >=3 characters or with a base prefix/underscore/exponent. Distinct by (kind, template, input). Slice templates also capture several tokens with one capture (@( Tok+ ), @( Tok Tok? Tok? )).",
		Assumptions: []string{"[]*numeric fields are not claimed (the statement is ambiguous there)", "struct types are made with reflect.StructOf and built through the public Build as the only member of Union[any]"},
		Batches:     func(t string) int { return 1 },
		Floor:       func(t string) int { return pick(t, 3000, 20000) },
		TimeoutSec:  func(t string) int { return pick(t, 120, 1800) },
		Child:       c17Child,
	})
}
