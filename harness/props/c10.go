package props

import (
	"fmt"
	"strings"

	"github.com/alecthomas/participle/v2"
	"github.com/alecthomas/participle/v2/lexer"

	"verifharness/gram"
	"verifharness/mon"
)

// C10: the parse depends only on the non-elided tokens.

func c10Opts(r *mon.RNG, i int) *gram.GenOpts {
	prof := []int{gram.ProfStateful, gram.ProfStateful, gram.ProfLower, gram.ProfDefault, gram.ProfScanCfg}[i%5]
	o := &gram.GenOpts{Profile: prof, MaxProds: 4, Budget: 12 + r.Intn(12) + (i/90)*6, Depth: 2 + r.Intn(3) + i/150, TokKinds: i%3 == 0, Unions: true,
		SharePrefix: 7, CaptureBias: 5, SubBias: 3, AllowBang: true, EOFRefs: true}
	if i%5 == 4 {
		// second half of the property: the grammar names the elided type explicitly
		o.Profile = gram.ProfStateful
		o.NamesElided = true
	}
	return o
}

func nonElidedSeq(T []lexer.Token, el map[lexer.TokenType]bool) string {
	var sb strings.Builder
	for _, t := range T {
		if t.Type == lexer.EOF || el[t.Type] {
			continue
		}
		fmt.Fprintf(&sb, "%d:%q ", t.Type, t.Value)
	}
	return sb.String()
}

func namesElided(g *gram.Grammar) bool {
	found := false
	for _, p := range g.Prods {
		gram.Walk(p.Expr, func(e *gram.Expr) {
			if (e.Op == "ref" || e.Op == "lit") && (e.Typ == "WS" || e.Typ == "Comment") {
				found = true
			}
			// an untyped literal whose text only a token of an elided type can have names that type just as well
			if e.Op == "lit" && e.Text != "" && (strings.HasPrefix(e.Text, "#") || strings.Trim(e.Text, " \t\r\n") == "") {
				found = true
			}
		})
	}
	return found
}

func c10Child(c *mon.Child) {
	if c.Batch == 0 {
		c10ParseableRoot(c)
		c10TokenNegation(c)
	}
	nInputs := c.N(50, 100)
	nSpacings := c.N(8, 14)
	ks := []int{0, 1, 2, 5, participle.MaxLookahead, -1}
	for gi, h := range gram.WithSubHandles(3) {
		gp := buildAll(h, ks, gi%3 == 1)
		if gp.err != nil {
			c.Feature("grammars_not_built")
			continue
		}
		g := gp.g
		named := namesElided(g)
		if named {
			c.Feature("grammars_naming_an_elided_type")
		} else {
			c.Feature("grammars_not_naming_elided_types")
		}
		el := map[lexer.TokenType]bool{}
		for _, n := range gp.elided {
			el[gp.sym[n]] = true
		}
		r := c.RNG("inputs", h.ID)
		smp := gram.NewSampler(g, r)
		inputs := smp.Inputs(nInputs)
		gdesc := trunc(g.String(), 900)
		for ii, toks := range inputs {
			key := fmt.Sprintf("%s.i%d", h.ID, ii)
			if !c.Want(key) {
				continue
			}
			c.Begin(key, fmt.Sprintf("%s <- %v", trunc(gdesc, 300), toks))
			// renderings
			var texts []string
			for s := 0; s < nSpacings; s++ {
				texts = append(texts, gram.Render(g.Profile, toks, s, r.Fork("render", ii, s)))
			}
			if named {
				// the reference semantics decides which elided token is matched
				for s, text := range texts {
					var T []lexer.Token
					mon.Guard(func() { T, _ = gp.byK[ks[0]].Lex("", strings.NewReader(text)) })
					if T == nil {
						continue
					}
					for _, k := range ks {
						c.Eval(1)
						env := gram.NewEnv(g, T, gp.sym, gp.elided, gp.ci, k, false)
						ref := env.Run()
						if env.Over || env.Unspec != "" {
							continue
						}
						rr := realParse(func() (interface{}, error) { return gp.byK[k].ParseString("", text) })
						if rr.Panicked {
							if env.Tr.NamedElidedMatch > 0 {
								// the documented meaning matches an explicitly named elided token here and arrives at a result
								c.Violation(c07PanicClass(rr.Stack, rr.PanicVal), key, fmt.Sprintf("parser panicked (%s) where the documented meaning matches an explicitly named elided token and accepts=%v | lookahead=%s | grammar: %s | input: %q", trunc(rr.PanicVal, 200), ref.OK, kName(k), gdesc, text),
									map[string]interface{}{"grammar": g, "input": text})
							} else {
								c.Feature("parse_panicked_(see_C06)")
							}
							continue
						}
						what := ""
						if (rr.Err == nil) != ref.OK {
							what = fmt.Sprintf("accept/reject differs: real ok=%v, documented meaning (first such elided token before the next ordinary token is matched) accepts=%v", rr.Err == nil, ref.OK)
						} else if ref.OK {
							var ds []gram.Diff
							gram.Compare(g, T, rr.AST, ref.Root, "root", &ds)
							if len(ds) > 0 {
								what, _ = diffsText(ds)
							}
						}
						if what != "" {
							c.Violation("", key, fmt.Sprintf("%s | lookahead=%s | grammar: %s | input: %q", what, kName(k), gdesc, text),
								map[string]interface{}{"grammar": g, "input": text, "difference": what})
						}
						if env.Tr.NamedElidedMatch > 0 {
							c.Feature("parses_matching_an_explicitly_named_elided_token")
							c.Nontrivial(h.IR + "\x00" + text + kName(k))
							if s == 2 && k == 1 {
								c.Sample(map[string]interface{}{"grammar": gdesc, "input": text, "named_elided_matches": env.Tr.NamedElidedMatch, "accepted": ref.OK})
							}
						}
					}
				}
				c.End(key)
				continue
			}
			// metamorphic half: identical non-elided sequences => identical outcome
			var base string
			var baseT []lexer.Token
			ok := true
			for s, text := range texts {
				var T []lexer.Token
				mon.Guard(func() { T, _ = gp.byK[ks[0]].Lex("", strings.NewReader(text)) })
				if T == nil {
					ok = false
					break
				}
				seq := nonElidedSeq(T, el)
				if s == 0 {
					base, baseT = seq, T
				} else if seq != base {
					ok = false
					break
				}
			}
			if ok && !affordable(c, gp, baseT) {
				c.End(key)
				continue
			}
			if !ok {
				c.Feature("renderings_with_unequal_token_sequences_(skipped)")
				c.End(key)
				continue
			}
			elidedAtBacktrack := false
			for _, k := range ks {
				var first realResult
				for s, text := range texts {
					c.Eval(1)
					rr := realParse(func() (interface{}, error) { return gp.byK[k].ParseString("", text) })
					if s == 0 {
						first = rr
						if rr.Panicked {
							c.Feature("parse_panicked_(see_C06)")
						}
						continue
					}
					what := ""
					if rr.Panicked != first.Panicked {
						// one spacing of the same token sequence panics, another does not
						pv := rr.PanicVal + first.PanicVal
						what = fmt.Sprintf("spacing #0 panicked=%v but spacing #%d panicked=%v (%s)", first.Panicked, s, rr.Panicked, trunc(pv, 200))
					} else if rr.Panicked {
						continue
					} else if (rr.Err == nil) != (first.Err == nil) {
						what = fmt.Sprintf("accepted=%v with spacing #0 but accepted=%v with spacing #%d", first.Err == nil, rr.Err == nil, s)
					} else if rr.Err == nil && rr.AST.CanonModuloElided(el) != first.AST.CanonModuloElided(el) {
						what = fmt.Sprintf("captured fields differ between spacing #0 and #%d: %s vs %s", s, trunc(first.AST.CanonModuloElided(el), 300), trunc(rr.AST.CanonModuloElided(el), 300))
					}
					if what != "" {
						class := ""
						if rr.Err == nil && first.Err == nil && rr.AST.CanonNoTokens() == first.AST.CanonNoTokens() &&
							(rr.AST.TokenFieldStartsElided(el) || first.AST.TokenFieldStartsElided(el)) {
							// only Token-typed fields differ, and one of them holds an elided token: the catalogued capture-start defect
							class = "token-capture-starts-at-elided-token"
						}
						c.Violation(class, key, fmt.Sprintf("%s | lookahead=%s | grammar: %s | inputs: %q vs %q", what, kName(k), gdesc, texts[0], text),
							map[string]interface{}{"grammar": g, "input_a": texts[0], "input_b": text, "difference": what})
						break
					}
				}
			}
			// coverage: was an elided run adjacent to a backtracking point?
			for s, text := range texts {
				if s > 3 {
					break
				}
				var T []lexer.Token
				mon.Guard(func() { T, _ = gp.byK[ks[0]].Lex("", strings.NewReader(text)) })
				if T == nil {
					continue
				}
				env := gram.NewEnv(g, T, gp.sym, gp.elided, gp.ci, 1, false)
				env.Run()
				if !env.Over && env.Tr.ElidedAtBacktrack > 0 {
					elidedAtBacktrack = true
				}
				if !env.Over && env.Tr.Abandoned > 0 && g.Profile != gram.ProfStateful {
					// lexer-dropped or scanner-skipped separators: no elided token objects exist, the run still varied
					elidedAtBacktrack = true
				}
			}
			if elidedAtBacktrack {
				c.Feature("token_strings_with_elided_run_next_to_a_backtracking_point")
				c.Nontrivial(h.IR + "\x00" + strings.Join(toks, " "))
				if ii%19 == 0 {
					c.Sample(map[string]interface{}{"grammar": gdesc, "tokens": toks, "spacings": texts[:3]})
				}
			}
			c.End(key)
		}
	}
}

func init() {
	Register(&mon.Spec{
		ID:          "C10",
		Rule:        "case = (generated grammar, token string) rendered under 8 (thorough 14) spacings: none/one/many spaces, newlines, CR/LF, comments before, between and after tokens. For grammars that never name an elided type (Token-typed captures compared by type and text; elided tokens inside a []lexer.Token run, which lie between matched tokens, are ignored; a leading one is not): accept/reject and all captured fields must be identical for every spacing under each lookahead in {0,1,2,5,MaxLookahead,unlimited} (the harness first checks with Parser.Lex that the non-elided (type,text) sequences really are equal). For grammars that name WS/Comment explicitly: result compared with the reference semantics' leaf rule (first such token before the next ordinary token). Non-trivial: an elided run lies next to a position where the reference trace abandoned an attempt (first half) / an explicitly named elided token was matched (second half). Distinct by (grammar IR, token string[, text, k]). In the second half a panic where the reference matches an explicitly named elided token is a violation; generated alternatives may consist of nothing but a named elided token.",
		Assumptions: []string{"lexer.Token-typed captures are compared by (type, text) only: positions inherently depend on spacing"},
		Batches:     func(t string) int { return pick(t, 4, 16) },
		Floor:       func(t string) int { return pick(t, 500, 10000) },
		TimeoutSec:  func(t string) int { return pick(t, 300, 3600) },
		Prepare:     gramPrepare("C10", func(t string) int { return pick(t, 80, 200) }, c10Opts, nil, false),
		Child:       c10Child,
	})
}
