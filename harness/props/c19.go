package props

import (
	"fmt"
	"reflect"
	"strconv"
	"strings"

	"github.com/alecthomas/participle/v2"
	"github.com/alecthomas/participle/v2/lexer"

	"verifharness/gram"
	"verifharness/mon"
)

// C19: Build always returns a parser or an error; it never panics or hangs.

var c19TagAlphabet = []string{"@", "@@", "(", ")", "[", "]", "{", "}", "|", "?", "*", "+", "!", "~", ":", "=", `"a"`, `'b'`, "`c`", `""`, "Ident", "String", "Int", "EOF", "Foo", `"x":Ident`, `"y":Foo`, "(?=", "(?!", "(?", "?=", ".", ",", "<", "-", "1", "1.5", `"\q"`, `"unterminated`, "'", "@Ident", `@"a"`, "é", "\\", "#", "/*", "//"}

var c19FieldTypes = []reflect.Type{
	reflect.TypeOf(""), reflect.TypeOf(0), reflect.TypeOf(false), reflect.TypeOf([]string{}), reflect.TypeOf(1.5), reflect.TypeOf((*string)(nil)),
	reflect.TypeOf(map[string]int{}), reflect.TypeOf(make(chan int)), reflect.TypeOf(func() {}), reflect.TypeOf((*interface{})(nil)).Elem(),
	reflect.TypeOf(lexer.Token{}), reflect.TypeOf([]lexer.Token{}), reflect.TypeOf(lexer.Position{}), reflect.TypeOf([]int{}), reflect.TypeOf([]*int{}),
	reflect.TypeOf(uint8(0)), reflect.TypeOf([3]string{}), reflect.TypeOf((*error)(nil)).Elem(), reflect.TypeOf(struct{}{}), reflect.TypeOf(&struct{ X string }{}),
	reflect.TypeOf([]struct {
		A string `@Ident`
	}{}),
	reflect.TypeOf(struct {
		A string `@Ident`
		B *int   `@Int?`
	}{}),
	reflect.TypeOf(&struct {
		A []string `"(" @Ident* ")"`
	}{}),
	reflect.TypeOf(struct {
		A string `@`
	}{}),
	reflect.TypeOf(complex(1, 1)), reflect.TypeOf(uintptr(0)), reflect.TypeOf([]byte{}), reflect.TypeOf([][]string{}),
}

func c19Soup(r *mon.RNG) string {
	n := r.Weighted(1, 3, 4, 4, 3, 3, 2, 2, 1, 1, 1)
	var parts []string
	for i := 0; i < n; i++ {
		parts = append(parts, c19TagAlphabet[r.Intn(len(c19TagAlphabet))])
	}
	if r.Chance(1, 4) {
		return strings.Join(parts, "")
	}
	return strings.Join(parts, " ")
}

func c19Tag(text string, kv bool) reflect.StructTag {
	if kv {
		return reflect.StructTag("parser:" + strconv.Quote(text))
	}
	return reflect.StructTag(text)
}

type c19Outcome struct {
	panicked bool
	pv, st   string
	err      error
	ok       bool
}

// c19Build drives the public Build with a dynamically made struct type.
func c19Build(st reflect.Type, opts ...participle.Option) c19Outcome {
	var o c19Outcome
	zero := reflect.New(st).Elem().Interface()
	all := append([]participle.Option{participle.Union[any](zero)}, opts...)
	var p *participle.Parser[any]
	o.panicked, o.pv, o.st = mon.Guard(func() { p, o.err = participle.Build[any](all...) })
	o.ok = p != nil
	return o
}

func c19Judge(c *mon.Child, key string, o c19Outcome, desc string, mustReject string, mustBuild bool) {
	detail := map[string]interface{}{"struct": desc}
	switch {
	case o.panicked:
		c.Violation(c07PanicClass(o.st, o.pv), key, fmt.Sprintf("Build panicked (%s) at %s | %s", o.pv, o.st, desc), detail)
	case o.ok == (o.err != nil):
		c.Violation("", key, fmt.Sprintf("Build returned parser=%v and error=%v (exactly one expected) | %s", o.ok, o.err, desc), detail)
	case mustReject != "" && o.err == nil:
		c.Violation("", key, fmt.Sprintf("Build accepted a tag that %s | %s", mustReject, desc), detail)
	case mustBuild && o.err != nil:
		c.Violation("", key, fmt.Sprintf("Build rejected a grammar that follows the documented syntax: %v | %s", o.err, desc), detail)
	}
	if o.err != nil {
		c.Feature("builds_rejected_with_error")
	} else if o.ok {
		c.Feature("builds_accepted")
	}
}

// validCorpus returns tags (one production each, value captures only) that
// follow the documented syntax, with a field type for every tag chunk.
func c19Corpus(r *mon.RNG, n int) []*gram.Prod {
	var out []*gram.Prod
	for i := 0; len(out) < n && i < n*20; i++ {
		g := gram.Generate(r.Fork("corpus", i), fmt.Sprintf("V%d", i), &gram.GenOpts{Profile: gram.ProfDefault, MaxProds: 1, Budget: 6 + r.Intn(10), Depth: 2 + r.Intn(2),
			TokKinds: true, CaptureBias: 6, SubBias: 0, AllowBang: true, SharePrefix: 3})
		p := g.Prods[0]
		hasSub := false
		gram.Walk(p.Expr, func(e *gram.Expr) {
			if e.Op == "sub" {
				hasSub = true
			}
		})
		if !hasSub {
			out = append(out, p)
		}
	}
	return out
}

func c19KindType(k string) reflect.Type {
	switch k {
	case "strs":
		return reflect.TypeOf([]string{})
	case "bool":
		return reflect.TypeOf(false)
	case "int":
		return reflect.TypeOf(0)
	case "tok":
		return reflect.TypeOf(lexer.Token{})
	case "toks":
		return reflect.TypeOf([]lexer.Token{})
	}
	return reflect.TypeOf("")
}

func c19StructFor(p *gram.Prod, tags []string, kv bool) reflect.Type {
	var fs []reflect.StructField
	for i, f := range p.Fields {
		fs = append(fs, reflect.StructField{Name: f.Name, Type: c19KindType(f.Kind), Tag: c19Tag(tags[i], kv)})
	}
	return reflect.StructOf(fs)
}

// tokenise splits a printed tag into its tokens (they are space-separated by construction, except '@').
func c19Tokens(tag string) []string {
	var out []string
	for _, f := range strings.Fields(tag) {
		for strings.HasPrefix(f, "@") && len(f) > 1 && f != "@@" {
			out = append(out, "@")
			f = f[1:]
		}
		out = append(out, f)
	}
	return out
}

func c19Child(c *mon.Child) {
	// (1) token soup on arbitrary field types
	nSoup := c.N(40000, 800000)
	r := c.RNG("soup")
	for i := 0; i < nSoup; i++ {
		key := fmt.Sprintf("s%d", i)
		nf := 1 + r.Weighted(5, 3, 1)
		var fs []reflect.StructField
		var descs []string
		kv := r.Chance(1, 3)
		for j := 0; j < nf; j++ {
			ft := c19FieldTypes[r.Intn(len(c19FieldTypes))]
			tag := c19Soup(r)
			if r.Chance(1, 10) {
				tag = ""
			}
			fs = append(fs, reflect.StructField{Name: fmt.Sprintf("F%d", j), Type: ft, Tag: c19Tag(tag, kv && tag != "")})
			descs = append(descs, fmt.Sprintf("F%d %s `%s`", j, ft, fs[j].Tag))
		}
		if !c.Want(key) {
			continue
		}
		desc := "struct{ " + strings.Join(descs, "; ") + " }"
		c.Begin(key, desc)
		c.Eval(1)
		var st reflect.Type
		if p, _, _ := mon.Guard(func() { st = reflect.StructOf(fs) }); p || st == nil {
			c.End(key)
			continue
		}
		var opts []participle.Option
		if i%7 == 0 {
			opts = append(opts, gram.LexerOptions(gram.ProfStateful)...)
		}
		o := c19Build(st, opts...)
		c19Judge(c, key, o, desc, "", false)
		if nf >= 1 {
			c.Nontrivial(desc)
		}
		if i%5000 == 0 {
			c.Sample(map[string]interface{}{"struct": desc, "built": o.ok, "error": fmt.Sprint(o.err)})
		}
		c.End(key)
	}
	// (2) targeted must-reject classes named in the property
	type neg struct{ tag, why string }
	negs := []neg{
		{`@Foo`, "references an unknown token type"}, {`"a" Foo`, "references an unknown token type"}, {`@"a":Foo`, "references an unknown token type in a literal constraint"},
		{`( "a"`, "leaves a group unclosed"}, {`@( "a" | "b"`, "leaves a group unclosed"}, {`[ "a"`, "leaves an optional unclosed"}, {`{ "a"`, "leaves a repetition unclosed"},
		{`(?= "a"`, "leaves a lookahead unclosed"}, {`(?! "a" "b"`, "leaves a lookahead unclosed"}, {`(? "a" )`, "has a malformed lookahead"},
		{`?`, "applies a modifier to nothing"}, {`*`, "applies a modifier to nothing"}, {`+`, "applies a modifier to nothing"}, {`"a" | ?`, "applies a modifier to nothing"}, {`( * )`, "applies a modifier to nothing"},
		{`@`, "applies a capture to nothing"}, {`"a" @`, "applies a capture to nothing"}, {`@ )`, "applies a capture to nothing"}, {`( @ ) "a"`, "applies a capture to nothing"},
		{`~`, "applies a negation to nothing"}, {`"a" ~`, "applies a negation to nothing"}, {`~ )`, "applies a negation to nothing"}, {`! !`, "applies a negation to nothing"}, {`!`, "applies a negation to nothing"},
		{`"a" |`, "contains an empty alternative"}, {`| "a"`, "contains an empty alternative"}, {`"a" | | "b"`, "contains an empty alternative"}, {`( | "a" )`, "contains an empty alternative"}, {`( )`, "contains an empty group"}, {`[ ]`, "contains an empty group"}, {`{ }`, "contains an empty group"}, {`{}`, "contains an empty group"}, {`"a" { }`, "contains an empty group"},
		{`( | )`, "contains an empty alternative"}, {`[ | ]`, "contains an empty alternative"}, {`{ | "a" }`, "contains an empty alternative"}, {`(?= )`, "contains an empty lookahead"}, {`(?! )`, "contains an empty lookahead"},
		{`@( )`, "captures an empty group"}, {`@[ ]`, "captures an empty group"}, {`@{ }`, "captures an empty group"}, {`~( )`, "negates an empty group"}, {`( )*`, "contains an empty group"}, {`( ( ) )`, "contains an empty group"},
	}
	for i, ng := range negs {
		if c.Batch != 0 {
			break
		}
		for _, kv := range []bool{false, true} {
			for _, ft := range []reflect.Type{reflect.TypeOf(""), reflect.TypeOf([]string{}), reflect.TypeOf(false)} {
				key := fmt.Sprintf("n%d.%v.%s", i, kv, ft.Kind())
				if !c.Want(key) {
					continue
				}
				st := reflect.StructOf([]reflect.StructField{{Name: "F0", Type: ft, Tag: c19Tag(ng.tag, kv)}})
				desc := fmt.Sprintf("struct{ F0 %s `%s` }", ft, c19Tag(ng.tag, kv))
				c.Begin(key, desc)
				c.Eval(1)
				c19Judge(c, key, c19Build(st), desc, ng.why, false)
				c.Nontrivial(desc)
				c.Feature("targeted_malformed_tags")
				c.End(key)
			}
		}
	}
	// struct with no usable grammar field
	for i, st := range []reflect.Type{
		reflect.StructOf(nil),
		reflect.StructOf([]reflect.StructField{{Name: "A", Type: reflect.TypeOf("")}}),
		reflect.StructOf([]reflect.StructField{{Name: "A", Type: reflect.TypeOf(""), Tag: `json:"a"`}, {Name: "B", Type: reflect.TypeOf(0)}}),
	} {
		key := fmt.Sprintf("e%d", i)
		if !c.Want(key) {
			continue
		}
		desc := st.String()
		c.Begin(key, desc)
		c.Eval(1)
		why := "has no usable grammar field"
		if i == 2 {
			why = "" // a json tag is taken as grammar text; only totality is demanded
		}
		c19Judge(c, key, c19Build(st), desc, why, false)
		c.End(key)
	}
	// deep "diamond" grammars: two alternatives per level, both starting with the next level.
	// Build (incl. its left-recursion validation) must stay fast: it is a hang monitor case.
	if c.Batch == 0 {
		for _, depth := range []int{8, 20, 34, 48} {
			key := fmt.Sprintf("diamond%d", depth)
			if !c.Want(key) {
				continue
			}
			desc := fmt.Sprintf("diamond grammar of depth %d (each level: A *Next `@@ \"a\"`; B *Next `| @@ \"b\"`)", depth)
			c.Begin(key, desc)
			c.Eval(1)
			var o c19Outcome
			o.panicked, o.pv, o.st = mon.Guard(func() { o.err = c19Diamonds[depth]() })
			o.ok = !o.panicked && o.err == nil
			c19Judge(c, key, o, desc, "", true)
			c.Nontrivial(desc)
			c.Feature("deep_diamond_grammars_built")
			c.End(key)
		}
	}
	// statically declared types: named, recursive, embedded, Parseable/Capture/TextUnmarshaler implementers, option misuse
	if c.Batch == 0 {
		for i, sc := range c19StaticCases {
			key := fmt.Sprintf("static%d", i)
			if !c.Want(key) {
				continue
			}
			c.Begin(key, sc.desc)
			c.Eval(1)
			var o c19Outcome
			o.panicked, o.pv, o.st = mon.Guard(func() { o.err = sc.build() })
			o.ok = !o.panicked && o.err == nil
			c19Judge(c, key, o, "static type: "+sc.desc, c19StaticMustReject[sc.desc], sc.mustBuild)
			c.Nontrivial("static:" + sc.desc)
			c.Feature("static_type_cases")
			c.End(key)
		}
	}
	// (3) valid corpus must build; every single-token edit must still terminate without panic
	corpus := c19Corpus(mon.NewRNG(c.Seed, "C19", "corpus"), c.N(60, 200))
	edits := 0
	for pi, p := range corpus {
		if pi%c.NBatch != c.Batch {
			continue
		}
		tags := p.FieldTags()
		for _, kv := range []bool{false, true} {
			key := fmt.Sprintf("v%d.%v", pi, kv)
			if c.Want(key) {
				desc := fmt.Sprintf("valid %s kv=%v", p.TagText(), kv)
				c.Begin(key, desc)
				c.Eval(1)
				c19Judge(c, key, c19Build(c19StructFor(p, tags, kv)), desc+" fields="+fmt.Sprint(p.Fields), "", true)
				c.Feature("valid_corpus_grammars")
				c.Nontrivial(desc)
				c.End(key)
			}
		}
		// edits on the chunk of one field at a time
		rr := c.RNG("edits", pi)
		for fi := range tags {
			toks := c19Tokens(tags[fi])
			apply := func(kind string, pos int, sub string) {
				var nt []string
				switch kind {
				case "del":
					nt = append(append(nt, toks[:pos]...), toks[pos+1:]...)
				case "ins":
					nt = append(append(append(nt, toks[:pos]...), sub), toks[pos:]...)
				case "rep":
					nt = append(append(append(nt, toks[:pos]...), sub), toks[pos+1:]...)
				}
				edited := append([]string{}, tags...)
				edited[fi] = strings.Join(nt, " ")
				if edited[fi] == "" {
					return
				}
				kv := (pos+len(sub))%2 == 0
				key := fmt.Sprintf("e%d.%d.%s.%d.%s", pi, fi, kind, pos, sub)
				if !c.Want(key) {
					return
				}
				desc := fmt.Sprintf("edit %s@%d %q of valid tag: %v kv=%v", kind, pos, sub, edited, kv)
				c.Begin(key, desc)
				c.Eval(1)
				c19Judge(c, key, c19Build(c19StructFor(p, edited, kv)), desc, "", false)
				edits++
				c.NontrivialEnumerated(1)
				c.End(key)
			}
			for pos := 0; pos <= len(toks); pos++ {
				if c.Thorough() {
					if pos < len(toks) {
						apply("del", pos, "")
					}
					for _, sub := range c19TagAlphabet {
						apply("ins", pos, sub)
						if pos < len(toks) {
							apply("rep", pos, sub)
						}
					}
				} else {
					if pos < len(toks) {
						apply("del", pos, "")
						apply("rep", pos, c19TagAlphabet[rr.Intn(len(c19TagAlphabet))])
					}
					apply("ins", pos, c19TagAlphabet[rr.Intn(len(c19TagAlphabet))])
					apply("ins", pos, c19TagAlphabet[rr.Intn(16)])
				}
			}
		}
	}
	c.FeatureN("single_token_edits_of_valid_tags", int64(edits))
	if c.Thorough() {
		c.Note("exhaustive_scope", "every single-token deletion, and every insertion/replacement by each of the "+fmt.Sprint(len(c19TagAlphabet))+" alphabet tokens, at every position of every field chunk of the valid-tag corpus (both tag forms alternate by position)")
	}
}

func init() {
	Register(&mon.Spec{
		ID:          "C19",
		Rule:        "case = struct type made with reflect.StructOf (field types: strings, numbers, bool, slices, pointers, maps, channels, funcs, interfaces, arrays, nested anonymous structs with their own tags, lexer.Token/Position) driven through the public Build as the only member of Union[any]; tags are (1) token soup over the tag language's alphabet incl. broken strings and unknown token types, in whole-tag and parser:\"...\" form, (2) targeted malformed tags of every class the property names (must be rejected with an error), (3) a corpus of valid generated tags (must build) and single-token deletions/insertions/replacements of them (thorough: exhaustively at every position with every alphabet token). Monitors: panic flag, exactly-one-of(parser, error), process watchdog for hangs. Non-trivial: every soup/targeted/corpus/edit case (each is a distinct struct type). Named, recursive and embedded types are covered by the compiled grammar batches of C01/C08 (all generated valid grammars must build there).",
		Assumptions: []string{"reflect.StructOf cannot express named, recursive or embedded types; those shapes reach Build through the compiled programs of the other checks", "a hang is decided by the child watchdog plus isolated re-run (Build does no search)"},
		Batches:     func(t string) int { return pick(t, 2, 16) },
		Floor:       func(t string) int { return pick(t, 10000, 100000) },
		TimeoutSec:  func(t string) int { return pick(t, 300, 3000) },
		Child:       c19Child,
	})
}
