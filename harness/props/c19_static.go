package props

import (
	"fmt"

	"github.com/alecthomas/participle/v2"
	"github.com/alecthomas/participle/v2/lexer"
)

// Statically declared grammar types for C19: the shapes reflect.StructOf
// cannot express - named, recursive and embedded types, and user types that
// implement Parseable / Capture / TextUnmarshaler with value or pointer
// receivers, used by value, pointer and slice.

type c19PV struct{ S string }                       // Parseable, value receiver
func (v c19PV) Parse(lex *lexer.PeekingLexer) error { return participle.NextMatch }

type c19PP struct{ S string } // Parseable, pointer receiver
func (v *c19PP) Parse(lex *lexer.PeekingLexer) error {
	v.S = lex.Next().Value
	return nil
}

type c19CV string                        // Capture, value receiver
func (c c19CV) Capture(v []string) error { return nil }

type c19CP struct{ V []string }           // Capture, pointer receiver
func (c *c19CP) Capture(v []string) error { c.V = append(c.V, v...); return nil }

type c19TP struct{ V string }                 // TextUnmarshaler, pointer receiver
func (c *c19TP) UnmarshalText(b []byte) error { c.V = string(b); return nil }

type c19TV struct{ V string }                // TextUnmarshaler, value receiver
func (c c19TV) UnmarshalText(b []byte) error { return nil }

type c19Inner struct {
	X string `@Ident`
}
type c19InnerList []c19Inner

type c19S1 struct {
	A c19PV `@@`
}
type c19S2 struct {
	A *c19PV `@@`
}
type c19S3 struct {
	A []c19PV `@@*`
}
type c19S4 struct {
	A c19PP `@@`
}
type c19S5 struct {
	A []*c19PP `@@+`
}
type c19S6 struct {
	A c19CV   `@Ident`
	B []c19CV `@Ident*`
}
type c19S7 struct {
	A c19CP    `@Ident`
	B *c19CP   `@Ident?`
	C []c19CP  `@Ident*`
	D []*c19CP `@Ident*`
}
type c19S8 struct {
	A c19TP   `@Ident`
	B *c19TP  `@Ident?`
	C []c19TP `@Ident*`
}
type c19S9 struct {
	A c19TV `@Ident`
}
type c19S10 struct { // a struct field captured with a single '@' must be rejected, not panic
	A c19Inner `@Ident`
}
type c19S11 struct { // embedded struct
	c19Inner
	Y string `@Ident?`
}
type c19S12 struct { // embedded pointer to struct (ignored unless tagged)
	*c19Inner
	Y string `@Ident`
}
type c19S13 struct { // self-embedding pointer
	*c19S13
	Y string `@Ident`
}
type c19S14 struct { // embedded named slice-of-struct type
	c19InnerList
	Y string `@Ident`
}
type c19S15 struct { // embedded, tagged
	c19InnerList `@@*`
	Y            string `@Ident`
}
type c19S16 struct { // mutually recursive through slices and pointers
	A []*c19S17 `"(" @@* ")"`
}
type c19S17 struct {
	B *c19S16 `@@`
	C string  `| @Ident`
}
type c19S18 struct { // unexported tagged fields only
	a string `@Ident`
	b string `@Ident`
}
type c19S19 struct { // unexported field between exported ones
	A string `@Ident`
	b string `@Ident`
	C string `@Ident`
}
type c19S20 struct { // pointer to pointer, slice of slices, maps
	A **string           `@Ident`
	B [][]string         `@Ident*`
	C map[string]string  `@Ident`
	D *[]string          `@Ident*`
	E []*[]string        `@Ident*`
	F func()             `@Ident`
	G chan int           `@Ident`
	H interface{}        `@Ident`
	I [2]string          `@Ident`
	J *c19S20            `@@?`
	K []**c19S20         `@@*`
	L lexer.Position     `@Ident`
	M *lexer.Token       `@Ident`
	N []*lexer.Token     `@Ident*`
	O struct{ X string } `@@`
}
type c19S21 struct { // Pos / EndPos / Tokens of the wrong type
	Pos    string
	EndPos int
	Tokens []string
	A      string `@Ident`
}
type c19S22 struct { // interface field without a union definition
	A fmt.Stringer `@@`
}
type c19Iface interface{ isC19() }
type c19M1 struct {
	A string `@Ident`
}
type c19M2 struct {
	B string `@Int`
}

func (c19M1) isC19()  {}
func (*c19M2) isC19() {}

type c19S23 struct {
	A []c19Iface `@@*`
}

// a field with an explicitly empty parser key next to other tag keys is not part of the grammar
type c19S31 struct {
	A    string `parser:"@Ident" json:"a"`
	Skip string `parser:"" json:"skip"`
	B    string `json:"b" parser:"@Int?"`
}

// right-recursive list whose item starts with optional terms (no left recursion: Item always consumes a token)
type c19Item struct {
	Neg  bool   `@"-"?`
	Tags string `( "#" @Ident )?`
	Name string `@Ident`
}
type c19List struct {
	Head c19Item  `@@`
	Tail *c19List `@@?`
}
type c19Decl struct {
	Attrs []string `( "#" @Ident )*`
	Name  string   `"fn" @Ident`
	Body  *c19Body `@@`
}
type c19Body struct {
	Decl *c19Decl `  @@`
	End  bool     `| @";"`
}

// self-referential slice and pointer types as field types
type c19SelfSlice []c19SelfSlice
type c19SelfPtr *c19SelfPtr
type c19SelfStructSlice []struct {
	Kids c19SelfStructSlice `@@*`
	X    string             `@Ident`
}

type c19CycN []*c19CycN
type c19CycA []c19CycB
type c19CycB []*c19CycA

type c19S32 struct {
	A c19CycN `@@`
}
type c19S33 struct {
	A c19CycA `@Ident*`
}
type c19S34 struct {
	A *c19CycB `@@?`
	B string   `@Ident`
}

// a stray token at the very start of a later field's tag
type c19S35 struct {
	A string `@Ident`
	B string `) @String`
}
type c19S36 struct {
	A []string `@Ident*`
	B string   `+ @String`
	C string   `@Int`
}
type c19S37 struct {
	A string `parser:"@Ident"`
	B string `parser:"] @String"`
}

type c19S26 struct {
	A c19SelfSlice `@@`
}
type c19S27 struct {
	A c19SelfSlice `@Ident`
}
type c19S28 struct {
	A c19SelfPtr `@@`
}
type c19S29 struct {
	A c19SelfPtr `@Ident?`
	B string     `@Ident`
}
type c19S30 struct {
	A c19SelfStructSlice `@@*`
}

// a union whose member captures, with @@, an interface type that is parsed by a ParseTypeWith function
type c19Val interface{ isC19Val() }
type c19ValNum struct{ N string }

func (c19ValNum) isC19Val() {}

type c19UM1 struct {
	V c19Val `"-" @@`
}
type c19UM2 struct {
	A string `@Ident`
}
type c19U2 interface{ isC19U2() }

func (c19UM1) isC19U2() {}
func (c19UM2) isC19U2() {}

type c19S24 struct {
	X []c19U2 `@@*`
}
type c19S25 struct { // the custom-parsed type used from an ordinary production reachable only through a union member
	W *c19UM1 `@@`
}

func c19ParseVal(lex *lexer.PeekingLexer) (c19Val, error) {
	if t := lex.Peek(); t.EOF() {
		return nil, participle.NextMatch
	}
	return c19ValNum{N: lex.Next().Value}, nil
}

// c19StaticMustReject names the static cases that Build has to reject, and why.
var c19StaticMustReject = map[string]string{
	"stray ')' at the start of the second field's tag":                             "has an unmatched ')' where the second field's grammar starts",
	"stray '+' at the start of the second field's tag after a complete repetition": "applies '+' to nothing at the start of the second field",
	"stray ']' at the start of the second field's parser tag":                      "has an unmatched ']' where the second field's grammar starts",
}

// Fields whose tag is there but holds no token (blanks only, a comment only)
// between fields that do: the tag language skips them, the grammar is the one
// the other fields spell.
type c19S38 struct {
	A string `@Ident`
	B string ` `
	C string `@Int`
}
type c19S39 struct {
	A string `parser:"@Ident"`
	B string `parser:"  "`
	C string `parser:"@Int"`
	D string `parser:"// nothing here"`
	E string `parser:"@Ident"`
}
type c19S40 struct {
	A string   `@Ident "="`
	B string   `  `
	C string   `  `
	D []string `@Int*`
}

// c19Blank builds one of the types above and, when it builds, parses the one
// input its token-bearing fields spell; a wrong grammar is reported as an error
// (must-build cases turn that into a violation).
func c19Blank[T any](input string, want func(*T) bool) func() error {
	return func() error {
		p, err := participle.Build[T]()
		if err != nil {
			return err
		}
		v, err := p.ParseString("", input)
		if err != nil {
			return fmt.Errorf("built, but the grammar is not the one the tags spell: %q is rejected: %v", input, err)
		}
		if !want(v) {
			return fmt.Errorf("built, but the grammar is not the one the tags spell: %q parses to %+v", input, *v)
		}
		return nil
	}
}

// non-struct union members
type c19Quoted string

func (q *c19Quoted) Parse(lex *lexer.PeekingLexer) error {
	t := lex.Peek()
	if t.EOF() {
		return participle.NextMatch
	}
	*q = c19Quoted(lex.Next().Value)
	return nil
}
func (c19Quoted) isC19() {}

type c19Count int

func (c19Count) isC19() {}

func c19B[T any](opts ...participle.Option) func() error {
	return func() error { _, err := participle.Build[T](opts...); return err }
}

// c19StaticCases lists (description, build function, must-build).
var c19StaticCases = []struct {
	desc      string
	build     func() error
	mustBuild bool
}{
	{"field of a value-receiver Parseable type, @@", c19B[c19S1](), true},
	{"pointer field of a value-receiver Parseable type, @@", c19B[c19S2](), true},
	{"slice of a value-receiver Parseable type, @@*", c19B[c19S3](), true},
	{"value-receiver Parseable type as root", c19B[c19PV](), true},
	{"field of a pointer-receiver Parseable type, @@", c19B[c19S4](), true},
	{"slice of pointers to a pointer-receiver Parseable type", c19B[c19S5](), true},
	{"pointer-receiver Parseable type as root", c19B[c19PP](), true},
	{"value-receiver Capture type, scalar and slice", c19B[c19S6](), true},
	{"pointer-receiver Capture type by value, pointer, slice, slice of pointers", c19B[c19S7](), true},
	{"pointer-receiver TextUnmarshaler by value, pointer, slice", c19B[c19S8](), true},
	{"value-receiver TextUnmarshaler", c19B[c19S9](), true},
	{"struct field captured with a single @ (must be an error)", c19B[c19S10](), false},
	{"embedded struct", c19B[c19S11](), true},
	{"embedded pointer to struct", c19B[c19S12](), true},
	{"self-embedding pointer", c19B[c19S13](), true},
	{"embedded named slice-of-struct type, untagged", c19B[c19S14](), true},
	{"embedded named slice-of-struct type, tagged @@*", c19B[c19S15](), false},
	{"mutually recursive types through slices and pointers", c19B[c19S16](), true},
	{"only unexported tagged fields", c19B[c19S18](), false},
	{"unexported tagged field between exported ones", c19B[c19S19](), true},
	{"exotic field types (**T, [][]T, map, func, chan, array, interface, nested anonymous struct)", c19B[c19S20](), false},
	{"Pos/EndPos/Tokens fields of unrelated types", c19B[c19S21](), true},
	{"interface field without a union definition", c19B[c19S22](), false},
	{"union with value and pointer-receiver members, declared", c19B[c19S23](participle.Union[c19Iface](c19M1{}, &c19M2{})), true},
	{"union declared twice", c19B[c19S23](participle.Union[c19Iface](c19M1{}), participle.Union[c19Iface](&c19M2{})), false},
	{"union with a non-struct member", c19B[c19S23](participle.Union[c19Iface](c19M1{}), participle.Union[fmt.Stringer](lexer.Position{})), false},
	{"union on a non-interface type", c19B[c19S23](participle.Union[c19M1](c19M1{})), false},
	{"union member with an @@ field of a ParseTypeWith type (Union option first)", c19B[c19S24](participle.Union[c19U2](c19UM1{}, c19UM2{}), participle.ParseTypeWith(c19ParseVal)), true},
	{"union member with an @@ field of a ParseTypeWith type (ParseTypeWith option first)", c19B[c19S24](participle.ParseTypeWith(c19ParseVal), participle.Union[c19U2](c19UM1{}, c19UM2{})), true},
	{"union as root whose member uses a ParseTypeWith type", c19B[c19U2](participle.Union[c19U2](c19UM1{}, c19UM2{}), participle.ParseTypeWith(c19ParseVal)), true},
	{"ParseTypeWith type used from an ordinary production", c19B[c19S25](participle.ParseTypeWith(c19ParseVal)), true},
	{"ParseTypeWith type used without being registered", c19B[c19S25](), false},
	{"@@ into a slice type whose element type is itself (type L []L)", c19B[c19S26](), false},
	{"@Ident into a slice type whose element type is itself", c19B[c19S27](), false},
	{"@@ into a pointer type that points to itself (type P *P)", c19B[c19S28](), false},
	{"@Ident? into a pointer type that points to itself", c19B[c19S29](), false},
	{"@@* into a named slice of an anonymous struct that contains the named slice", c19B[c19S30](), false},
	{"fields with an empty parser key and other tag keys", c19B[c19S31](), true},
	{"right-recursive list whose item begins with optional terms", c19B[c19List](), true},
	{"declaration with optional leading attributes, recursive through its body", c19B[c19Decl](), true},
	{"@@ into a slice of pointers to itself (type N []*N)", c19B[c19S32](), false},
	{"capture into mutually recursive slice types (type A []B; type B []*A)", c19B[c19S33](), false},
	{"optional @@ into a pointer to a mutually recursive slice type", c19B[c19S34](), false},
	{"stray ')' at the start of the second field's tag", c19B[c19S35](), false},
	{"stray '+' at the start of the second field's tag after a complete repetition", c19B[c19S36](), false},
	{"stray ']' at the start of the second field's parser tag", c19B[c19S37](), false},
	{"middle field whose tag is a single blank", c19Blank[c19S38]("a 1", func(v *c19S38) bool { return v.A == "a" && v.C == "1" && v.B == "" }), true},
	{"middle fields whose parser tags are blank or a comment only", c19Blank[c19S39]("a 1 b", func(v *c19S39) bool { return v.A == "a" && v.C == "1" && v.E == "b" }), true},
	{"two blank-tagged fields before a repetition", c19Blank[c19S40]("a = 1 2", func(v *c19S40) bool { return v.A == "a" && len(v.D) == 2 }), true},
	{"union with a Parseable member of string kind (by pointer)", c19B[c19S23](participle.Union[c19Iface](c19M1{}, new(c19Quoted))), true},
	{"union with a non-Parseable member of int kind", c19B[c19S23](participle.Union[c19Iface](c19M1{}, c19Count(0))), false},
	{"union with a nil member", c19B[c19S23](participle.Union[c19Iface](c19M1{}, nil)), false},
	{"Elide of an unknown token type", c19B[c19S11](participle.Elide("Nope")), false},
	{"Map on an unknown token type", c19B[c19S11](participle.Upper("Nope")), false},
	{"CaseInsensitive on an unknown token type", c19B[c19S11](participle.CaseInsensitive("Nope")), false},
	{"ParseTypeWith for a non-interface type", c19B[c19S11](participle.ParseTypeWith(func(*lexer.PeekingLexer) (c19M1, error) { return c19M1{}, nil })), false},
	{"ParseTypeWith and Union for the same interface", c19B[c19S23](participle.Union[c19Iface](c19M1{}), participle.ParseTypeWith(func(*lexer.PeekingLexer) (c19Iface, error) { return c19M1{}, nil })), false},
}
