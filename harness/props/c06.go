package props

import (
	"fmt"
	"os"
	"path/filepath"
	"strings"

	"github.com/alecthomas/participle/v2"
	"github.com/alecthomas/participle/v2/lexer"

	"verifharness/gram"
	"verifharness/lexgen"
	"verifharness/mon"
)

// C06: parsing any input returns a value or a well-formed, located error.

var c06Examples = []gram.ExampleSpec{
	{Dir: "json", Var: "jsonParser"}, {Dir: "sql", Var: "parser"}, {Dir: "ini", Var: "parser"}, {Dir: "graphql", Var: "parser"},
	{Dir: "toml", Var: "tomlParser"}, {Dir: "hcl", Var: "parser"}, {Dir: "protobuf", Var: "parser"}, {Dir: "microc", Var: "parser"},
	{Dir: "basic", Var: "basicParser"}, {Dir: "stateful", Var: "parser"}, {Dir: "expr", Var: "parser"}, {Dir: "expr2", Var: "parser"},
	{Dir: "expr3", Var: "parser"}, {Dir: "simpleexpr", Var: "parser"}, {Dir: "jsonpath", Var: "parser"},
	{Dir: "precedenceclimbing", Var: "parser", UserCode: true}, {Dir: "expr4", Var: "parser", UserCode: true},
}

func c06Opts(r *mon.RNG, i int) *gram.GenOpts {
	prof := []int{gram.ProfStateful, gram.ProfDefault, gram.ProfLower, gram.ProfScanCfg}[i%4]
	o := &gram.GenOpts{Profile: prof, MaxProds: 5, Budget: 12 + r.Intn(14), Depth: 2 + r.Intn(3), TokKinds: true, Unions: true,
		SharePrefix: 5, CaptureBias: 5, SubBias: 4, AllowBang: true, NamesElided: i%8 == 7, EOFRefs: true}
	if o.NamesElided {
		o.Profile = gram.ProfStateful // only this profile has elided token types a grammar can name
	}
	return o
}

// c06ErrorOracle checks a non-nil error for well-formedness. L/lexErr are
// Parser.Lex's result on the same input.
func c06ErrorOracle(err error, input, filename string, L []lexer.Token, lexErr error, astNil bool, userCode bool) (what, class string) {
	if lexErr != nil && !astNil {
		return fmt.Sprintf("lexing fails (%v) but a non-nil AST was returned", lexErr), ""
	}
	if lexErr == nil && astNil {
		return fmt.Sprintf("parse failure (%v) came with a nil AST (a partial AST is promised)", err), ""
	}
	if userCode {
		return "", ""
	}
	pe, ok := err.(participle.Error)
	if !ok {
		return fmt.Sprintf("error of type %T does not satisfy participle.Error: %v", err, err), ""
	}
	pos := pe.Position()
	if pos.Filename != filename {
		return fmt.Sprintf("error position carries filename %q, caller supplied %q (%v)", pos.Filename, filename, err), ""
	}
	if pos.Offset < 0 || pos.Offset > len(input) {
		return fmt.Sprintf("error offset %d is outside the input (length %d): %v", pos.Offset, len(input), err), ""
	}
	l, c := lexgen.LineCol(input, pos.Offset)
	if pos.Line != l || pos.Column != c {
		cls := ""
		return fmt.Sprintf("error position %d:%d is not the line/column of its offset %d (%d:%d): %v", pos.Line, pos.Column, pos.Offset, l, c, err), cls
	}
	prefix := ""
	if filename != "" {
		prefix = filename + ":"
	}
	prefix += fmt.Sprintf("%d:%d: ", pos.Line, pos.Column)
	if err.Error() != prefix+pe.Message() {
		return fmt.Sprintf("error text %q is not position+message %q", err.Error(), prefix+pe.Message()), ""
	}
	if ute, ok := err.(*participle.UnexpectedTokenError); ok && lexErr == nil {
		found := false
		for _, t := range L {
			if t.Pos == ute.Unexpected.Pos {
				found = true
				if t != ute.Unexpected {
					return fmt.Sprintf("unexpected-token error names %#v but the token at that position is %#v", ute.Unexpected, t), ""
				}
			}
		}
		if !found {
			return fmt.Sprintf("unexpected-token error names %#v, which is not a token of the stream", ute.Unexpected), ""
		}
	}
	return "", ""
}

// c06Corpus collects the example's own input files.
func c06Corpus(name string) []string {
	var out []string
	ents, _ := os.ReadDir(filepath.Join(gram.RepoDir(), "_examples", name))
	for _, e := range ents {
		n := e.Name()
		if e.IsDir() || strings.HasSuffix(n, ".go") {
			continue
		}
		if b, err := os.ReadFile(filepath.Join(gram.RepoDir(), "_examples", name, n)); err == nil && len(b) < 200000 {
			out = append(out, string(b))
		}
	}
	seeds := map[string][]string{
		"json": {`{"a": [1, 2.5, true, null, "s\n"], "b": {"c": {}}}`},
		"sql":  {`SELECT a, b AS c, COUNT(*) FROM t AS x WHERE a = 1 AND (b <> 'x' OR c BETWEEN 1 AND 2) LIMIT 10`, `SELECT * FROM (SELECT a FROM b) WHERE a IN (1,2,3) OR b LIKE "x%"`},
		"expr": {`1 + 2 * (3 - x) / 4`}, "expr2": {`1 + 2 * (3 - x) / 4 == 5 && !y`}, "expr3": {`1 + 2 * (3 - x) / 4`}, "expr4": {`1 + 2 * (3 - x) / 4 < 5`},
		"simpleexpr":         {`1 + 2 * 3 - 4`},
		"precedenceclimbing": {`1 + 2 * 3 ^ 2 - (4 / 2)`},
		"stateful":           {`"hello ${name + "x ${y}"} world"`},
		"jsonpath":           {`check_run.check_suite.pull_requests[0].url`, `a.b[12].c`},
		"microc":             {"int a;\nint f(int x) { if (x > 1) { return x * f(x - 1); } else { return 1; } }\nvoid main() { int i; i = 0; while (i < 10) { i = i + 1; } }"},
		"basic":              {"10 PRINT \"hi\"\n20 LET A = 1 + 2\n30 IF A > 2 THEN GOTO 10\n40 END\n"},
		"ini":                {"a = 1\n[sec]\nb = \"x\"\nc = 1.5\n"},
		"toml":               {"a = 1\nb = [1, 2, [3]]\n[sec]\nc = \"x\"\nd = 2020-01-01T00:00:00Z\n"},
		"hcl":                {"a = 1\nb \"l\" { c = [1, 2]\n d = { e = true } }\n"},
		"graphql":            {"type A implements B { a: Int! b(x: [C] = 1): D @dir(y: 2) }\nenum E { X Y }\nschema { query: A }"},
		"protobuf":           {"syntax = \"proto3\";\npackage a.b;\nmessage M { int32 a = 1; repeated string b = 2 [deprecated=true]; message N { } enum E { X = 0; } map<string, int32> m = 3; oneof o { int32 p = 4; } }\nservice S { rpc R(M) returns (stream M); }"},
	}
	return append(out, seeds[name]...)
}

// families of synthesised inputs: flat(n) and nested(n)
func c06Families(name string) (flat func(n int) string, nested func(n int) string) {
	rep := func(s string, n int) string { return strings.Repeat(s, n) }
	switch name {
	case "json":
		return func(n int) string { return "[" + rep("1,", n) + "1]" }, func(n int) string { return rep("[", n) + "1" + rep("]", n) }
	case "sql":
		return func(n int) string { return "SELECT " + rep("a, ", n) + "a FROM t" }, func(n int) string { return "SELECT " + rep("(", n) + "1" + rep(")", n) + " FROM t" }
	case "ini":
		return func(n int) string { return rep("a = 1\n", n) }, nil
	case "toml":
		return func(n int) string { return rep("a = 1\n", n) }, func(n int) string { return "a = " + rep("[", n) + "1" + rep("]", n) + "\n" }
	case "hcl":
		return func(n int) string { return rep("a = 1\n", n) }, func(n int) string { return rep("b { ", n) + "a = 1 " + rep("} ", n) }
	case "graphql":
		return func(n int) string { return "type A { " + rep("a: B ", n) + "}" }, func(n int) string { return "type A { a: " + rep("[", n) + "B" + rep("]", n) + " }" }
	case "protobuf":
		return func(n int) string { return "message M { " + rep("int32 a = 1; ", n) + "}" }, func(n int) string { return rep("message M { ", n) + rep("} ", n) }
	case "microc":
		return func(n int) string { return "void main() { " + rep("a = 1; ", n) + "}" }, func(n int) string { return "void main() { a = " + rep("(", n) + "1" + rep(")", n) + "; }" }
	case "basic":
		return func(n int) string { return rep("10 PRINT 1\n", n) }, func(n int) string { return "10 PRINT " + rep("(", n) + "1" + rep(")", n) + "\n" }
	case "stateful":
		return func(n int) string { return `"` + rep("a ${b} ", n) + `"` }, func(n int) string { return rep(`"${`, n) + `"x"` + rep(`}"`, n) }
	case "simpleexpr":
		return func(n int) string { return rep("1 + ", n) + "1" }, func(n int) string { return rep("(", n) + "1" + rep(")", n) }
	case "expr", "expr2", "expr3", "expr4", "precedenceclimbing":
		// these grammars are right-recursive in their operators: "1 + 1 + ..." is a nested input for them, not a flat one
		return nil, func(n int) string { return rep("(", n) + "1" + rep(")", n) }
	case "jsonpath":
		return func(n int) string { return "a" + rep(".b", n) }, nil
	}
	return nil, nil
}

func c06Mutate(r *mon.RNG, corpus []string) string {
	if len(corpus) == 0 || r.Chance(1, 8) {
		// arbitrary bytes
		n := r.Range(0, 24)
		b := make([]byte, n)
		for i := range b {
			b[i] = byte(r.Intn(256))
		}
		return string(b)
	}
	s := corpus[r.Intn(len(corpus))]
	if len(s) > 3000 {
		st := r.Intn(len(s) - 2000)
		s = s[st : st+r.Range(1, 2000)]
	}
	switch r.Intn(7) {
	case 0: // truncate
		if len(s) > 0 {
			s = s[:r.Intn(len(s))]
		}
	case 1: // splice two parts
		t := corpus[r.Intn(len(corpus))]
		if len(t) > 1500 {
			t = t[:1500]
		}
		if len(s) > 0 && len(t) > 0 {
			s = s[:r.Intn(len(s))] + t[r.Intn(len(t)):]
		}
	case 2: // delete a span
		if len(s) > 2 {
			a := r.Intn(len(s) - 1)
			b := a + r.Range(1, 12)
			if b > len(s) {
				b = len(s)
			}
			s = s[:a] + s[b:]
		}
	case 3: // insert a random byte / character
		p := r.Intn(len(s) + 1)
		ins := []string{"\xff", "(", ")", "{", "}", "[", "]", "\"", "'", "`", "\n", "0", "é", ",", ";", "${", "-", "\x00"}[r.Intn(18)]
		s = s[:p] + ins + s[p:]
	case 4: // token soup from the corpus
		f := strings.Fields(s)
		if len(f) > 0 {
			n := r.Range(1, 40)
			var out []string
			for i := 0; i < n; i++ {
				out = append(out, f[r.Intn(len(f))])
			}
			s = strings.Join(out, " ")
		}
	case 5: // duplicate a span
		if len(s) > 2 {
			a := r.Intn(len(s) - 1)
			b := a + r.Range(1, 30)
			if b > len(s) {
				b = len(s)
			}
			s = s[:b] + s[a:b] + s[b:]
		}
	}
	return s
}

func c06One(c *mon.Child, key string, b gram.Built, who, input, fname string, userCode bool, gdetail func() interface{}) {
	c.Eval(1)
	var L []lexer.Token
	var lexErr error
	if p, pv, st := mon.Guard(func() { L, lexErr = b.Lex(fname, strings.NewReader(input)) }); p {
		c.Violation(c07PanicClass(st, pv), key, fmt.Sprintf("Parser.Lex panicked (%s) at %s | %s | input %q", pv, st, who, trunc(input, 300)), gdetail())
		return
	}
	for ei, ep := range []string{"ParseString", "ParseBytes", "Parse"} {
		if ei > 0 && len(input) > 4000 {
			break
		}
		rr := realParse(func() (interface{}, error) {
			switch ep {
			case "ParseString":
				return b.ParseString(fname, input)
			case "ParseBytes":
				return b.ParseBytes(fname, []byte(input))
			}
			return b.Parse(fname, strings.NewReader(input))
		})
		if rr.Panicked {
			if userCode {
				// The example's own Parseable/ParseTypeWith code panics on malformed input; that is user code, not the library.
				c.Feature("panics_raised_by_example_user_code_(not_judged)")
				return
			}
			c.Violation(c07PanicClass(rr.Stack, rr.PanicVal), key, fmt.Sprintf("%s panicked (%s) at %s | %s | input %q", ep, rr.PanicVal, rr.Stack, who, trunc(input, 300)), gdetail())
			return
		}
		if rr.Err == nil {
			if rr.NilAST {
				c.Violation("", key, fmt.Sprintf("%s returned nil AST and nil error | %s | input %q", ep, who, trunc(input, 300)), gdetail())
			}
			c.Feature("parses_accepted")
			continue
		}
		what, class := c06ErrorOracle(rr.Err, input, fname, L, lexErr, rr.NilAST, userCode)
		if what != "" {
			c.Violation(class, key, fmt.Sprintf("%s: %s | %s | input %q file %q", ep, what, who, trunc(input, 300), fname), gdetail())
			return
		}
		if lexErr != nil {
			c.Feature("errors_from_lexing")
		} else {
			c.Feature("errors_from_parsing")
			if _, ok := rr.Err.(*participle.UnexpectedTokenError); ok {
				c.Feature("unexpected_token_errors_checked_against_stream")
			}
		}
	}
}

// c06FlatG is a flat list grammar over a lexer with lexer-elided rules: a
// very long flat input (mostly elided tokens) must parse with bounded stack.
type c06FlatG struct {
	Items []string `@Ident*`
}

var c06FlatLexer = lexer.MustSimple([]lexer.SimpleRule{{Name: "comment", Pattern: `#[^\n]*`}, {Name: "nl", Pattern: `[\n ]`}, {Name: "Ident", Pattern: `[a-z]+`}})

func c06FlatLexing(c *mon.Child) {
	p, err := participle.Build[c06FlatG](participle.Lexer(c06FlatLexer))
	if err != nil {
		c.Violation("", "flatlex", "flat list grammar does not build: "+err.Error(), nil)
		return
	}
	for i, in := range []string{strings.Repeat("# c\n", 400000) + "a b", strings.Repeat("a # c\n", 100000), strings.Repeat("\n", 1500000)} {
		key := fmt.Sprintf("flatlex%d", i)
		if !c.Want(key) {
			continue
		}
		c.Begin(key, fmt.Sprintf("flat list grammar over a lexer with elided rules <- %q (%d bytes)", trunc(in, 40), len(in)))
		c.Eval(1)
		var v *c06FlatG
		var perr error
		pn, pv, st := mon.Guard(func() { v, perr = p.ParseString("", in) })
		switch {
		case pn:
			c.Violation("", key, "ParseString panicked on a long flat input: "+pv+" at "+st, nil)
		case perr != nil:
			c.Violation("", key, "valid long flat input rejected: "+perr.Error(), nil)
		case v == nil:
			c.Violation("", key, "nil AST and nil error", nil)
		}
		c.Feature("long_flat_inputs_of_lexer_elided_tokens")
		c.Nontrivial(key)
		c.End(key)
	}
}

// c06MultilineG: tokens that span newlines and contain multi-byte text (block
// comments, raw strings) precede the error, so the error's column depends on
// how positions are advanced over such tokens.
type c06MultilineG struct {
	Items []string `( @Ident | @Str )*`
}

var c06MultilineLexer = lexer.MustSimple([]lexer.SimpleRule{
	{Name: "Comment", Pattern: `/\*[^*]*\*/`}, {Name: "Str", Pattern: "`[^`]*`"}, {Name: "WS", Pattern: `[ \t\r\n]+`}, {Name: "Ident", Pattern: `[a-zé世]+`}, {Name: "Int", Pattern: `[0-9]+`}})

func c06Multiline(c *mon.Child) {
	p, err := participle.Build[c06MultilineG](participle.Lexer(c06MultilineLexer), participle.Elide("Comment", "WS"))
	if err != nil {
		c.Violation("", "multiline", "multi-line token grammar does not build: "+err.Error(), nil)
		return
	}
	pieces := []string{"a", "é世", "/* x\né世 y */", "/* 1\n\n2 */", "`r\n世界 é`", "`x`", "\n", " ", "\r\n", "é", "/*é*/"}
	enders := []string{"7", "$", "`unterminated", "/* open", "9 a", ""}
	r := c.RNG("multiline")
	for i := 0; i < c.N(3000, 30000); i++ {
		key := fmt.Sprintf("ml%d", i)
		if !c.Want(key) {
			continue
		}
		var sb strings.Builder
		for k := r.Range(1, 8); k > 0; k-- {
			sb.WriteString(pieces[r.Intn(len(pieces))])
			sb.WriteString(r.Pick(" ", "", " ", "\n"))
		}
		sb.WriteString(enders[r.Intn(len(enders))])
		input := sb.String()
		c.Begin(key, fmt.Sprintf("multi-line token grammar <- %q", input))
		c06One(c, key, gram.WrapParser(p), "multi-line token grammar (Comment/Str tokens span newlines and hold multi-byte text)", input, []string{"m.txt", ""}[i%2], false, func() interface{} { return map[string]interface{}{"input": input} })
		if strings.Contains(input, "\n") {
			c.Nontrivial("ml:" + input)
			c.Feature("errors_after_multiline_multibyte_tokens")
		}
		c.End(key)
	}
}

// c06Options: whatever options Build accepted, parsing must not panic.
func c06Options(c *mon.Child) {
	type optCase struct {
		desc string
		opts []participle.Option
	}
	cases := []optCase{
		{"Elide of a token type the lexer does not have", []participle.Option{participle.Elide("Nope")}},
		{"Elide of an existing and a missing type", []participle.Option{participle.Elide("Comment", "Nope")}},
		{"CaseInsensitive of a missing type", []participle.Option{participle.CaseInsensitive("Nope")}},
		{"UseLookahead(0)", []participle.Option{participle.UseLookahead(0)}},
		{"Elide given twice", []participle.Option{participle.Elide("Comment"), participle.Elide("Comment")}},
		{"Unquote and Upper on the same type", []participle.Option{participle.Unquote("String"), participle.Upper("String")}},
		{"Unquote of token types that carry no quotes", []participle.Option{participle.Unquote("Ident", "Int")}},
		{"Unquote of every literal type of the default lexer", []participle.Option{participle.Unquote("String", "Char", "RawString")}},
	}
	for i, oc := range cases {
		key := fmt.Sprintf("opt%d", i)
		if !c.Want(key) {
			continue
		}
		c.Begin(key, "option case: "+oc.desc)
		var p *participle.Parser[c06FlatG]
		var err error
		if pn, pv, st := mon.Guard(func() { p, err = participle.Build[c06FlatG](oc.opts...) }); pn {
			c.Violation("", key, "Build panicked with options ("+oc.desc+"): "+pv+" at "+st, nil)
			c.End(key)
			continue
		}
		if err == nil && p != nil {
			for _, in := range []string{"a b", "", "a // c\n b", "\"s\" a", "ab 1 22", "a 'c' `r` \"\\q\"", "x"} {
				c06One(c, key, gram.WrapParser(p), "flat list grammar built with "+oc.desc, in, "o.txt", false, func() interface{} { return map[string]interface{}{"options": oc.desc, "input": in} })
			}
		} else {
			c.Feature("option_misuse_rejected_by_Build")
		}
		c.Nontrivial("opt:" + oc.desc)
		c.End(key)
	}
}

func c06Child(c *mon.Child) {
	if c.Batch == 0 {
		c06FlatLexing(c)
		c06Multiline(c)
		c06Options(c)
		c06Targets(c)
		c06StructOfTargets(c)
		c06ActionErrors(c)
		c06EmptyMatches(c)
		c06Heredocs(c)
	}
	// Part A: generated grammars x arbitrary bytes / soup / near-derivations
	nInputs := c.N(60, 300)
	for gi, h := range gram.Registry {
		gp := buildAll(h, []int{[]int{1, 2, participle.MaxLookahead, 0}[gi%4]}, gi%3 == 1)
		if gp.err != nil {
			c.Feature("grammars_not_built")
			continue
		}
		var b gram.Built
		for _, x := range gp.byK {
			b = x
		}
		g := gp.g
		r := c.RNG("inputs", h.ID)
		smp := gram.NewSampler(g, r)
		gdesc := trunc(g.String(), 700)
		for ii, toks := range append(featInputs(g), smp.Inputs(nInputs)...) {
			key := fmt.Sprintf("%s.i%d", h.ID, ii)
			if !c.Want(key) {
				continue
			}
			text := gram.Render(g.Profile, toks, ii%6, r.Fork("render", ii))
			switch ii % 5 {
			case 3:
				text = lexgen.Soup(r, r.Range(0, 16))
			case 4:
				text = c06Mutate(r, []string{text})
			}
			fname := []string{"a.txt", "", "d/é"}[ii%3]
			c.Begin(key, fmt.Sprintf("%s <- %q", trunc(gdesc, 300), text))
			// cost guard (see gramcommon.affordable)
			var L []lexer.Token
			mon.Guard(func() { L, _ = b.Lex("", strings.NewReader(text)) })
			if L != nil && !affordable(c, gp, L) {
				c.End(key)
				continue
			}
			c06One(c, key, b, "grammar: "+gdesc, text, fname, false, func() interface{} { return map[string]interface{}{"grammar": g, "input": text} })
			if len(text) > 0 {
				c.Nontrivial(h.IR + "\x00" + text)
			}
			c.End(key)
		}
	}
	// Part B: the repository's example grammars
	for ei, ex := range gram.Examples {
		if ei%c.NBatch != c.Batch {
			continue
		}
		corpus := c06Corpus(ex.Name)
		r := c.RNG("example", ex.Name)
		n := c.N(400, 12000)
		who := "example grammar " + ex.Name
		for i := 0; i < n; i++ {
			key := fmt.Sprintf("ex.%s.%d", ex.Name, i)
			if !c.Want(key) {
				continue
			}
			input := c06Mutate(r, corpus)
			if i < len(corpus) {
				input = corpus[i]
			}
			if i == len(corpus) {
				input = ""
			}
			fname := []string{"in", "", "x/y.z"}[i%3]
			c.Begin(key, fmt.Sprintf("%s <- %q", who, trunc(input, 400)))
			c06One(c, key, ex.Parser, who, input, fname, ex.UserCode, func() interface{} { return map[string]interface{}{"example": ex.Name, "input": input} })
			c.Nontrivial(ex.Name + "\x00" + input)
			if i%400 == 7 {
				c.Sample(map[string]interface{}{"example": ex.Name, "input": trunc(input, 200)})
			}
			c.End(key)
		}
		c.Feature("example_grammars_exercised")
		// depth monitors on synthesised families
		flat, nested := c06Families(ex.Name)
		lastVisits := 0
		measure := func(input string) (int, bool, string) {
			w := &depthWriter{vbound: 4000000}
			exceeded := false
			pv := ""
			func() {
				defer func() {
					if r := recover(); r != nil {
						if _, ok := r.(depthExceeded); ok {
							exceeded = true
						} else {
							pv = fmt.Sprint(r)
						}
					}
				}()
				_, _ = ex.Parser.ParseString("", input, participle.Trace(w))
			}()
			lastVisits = w.visits
			return w.max, exceeded, pv
		}
		if flat != nil {
			key := "flat." + ex.Name
			if c.Want(key) {
				big := c.N(10000, 100000)
				c.Begin(key, fmt.Sprintf("%s flat family n=100 vs n=%d", who, big))
				d1, _, p1 := measure(flat(100))
				d2, ex2, p2 := measure(flat(big))
				c.Eval(2)
				switch {
				case p1 != "" || p2 != "":
					c.Violation("", key, fmt.Sprintf("%s panicked on a flat input: %s %s", who, p1, p2), nil)
				case ex2:
					c.Inconclusive("visit-budget-on-flat-input")
				case d2 != d1:
					c.Violation("", key, fmt.Sprintf("%s: recursion depth grows with the length of a flat input: depth %d at n=100, %d at n=%d (input like %q)", who, d1, d2, big, trunc(flat(3), 80)), map[string]interface{}{"example": ex.Name})
				default:
					c.Feature("flat_families_with_constant_depth")
					c.FeatureMax("max:flat_family_depth", int64(d2))
				}
				c.Nontrivial(key)
				c.End(key)
			}
		}
		if nested != nil {
			key := "nested." + ex.Name
			if c.Want(key) {
				c.Begin(key, who+" nested family n=10,20,300 (24 when the grammar backtracks exponentially)")
				d10, _, p1 := measure(nested(10))
				v10 := lastVisits
				d20, ex20, p2 := measure(nested(20))
				v20 := lastVisits
				deep := 300
				if ex20 || v20 > 6*v10+1000 {
					// The example grammar itself backtracks exponentially in the nesting depth
					// (visits grow much faster than linearly): 300 levels is not affordable and
					// says nothing about recursion depth. Use the deepest affordable level.
					deep = 24
					c.Feature("nested_families_on_exponentially_backtracking_example_grammars")
				}
				d300, ex3, p3 := measure(nested(deep))
				c.Eval(3)
				per := (d20 - d10 + 9) / 10
				switch {
				case p1 != "" || p2 != "" || p3 != "":
					c.Violation("", key, fmt.Sprintf("%s panicked on a nested input: %s %s %s", who, p1, p2, p3), nil)
				case ex3:
					c.Inconclusive("visit-budget-on-nested-input")
				case d300 > d10+per*(deep-10)+per+4:
					c.Violation("", key, fmt.Sprintf("%s: recursion depth is not proportional to the nesting depth: %d at 10 levels, %d at 20, %d at %d", who, d10, d20, d300, deep), map[string]interface{}{"example": ex.Name})
				default:
					c.Feature("nested_families_with_proportional_depth")
					c.FeatureMax("max:depth_at_300_levels", int64(d300))
				}
				c.Nontrivial(key)
				c.End(key)
			}
		}
	}
}

func init() {
	Register(&mon.Spec{
		ID:          "C06",
		Rule:        "case = (grammar, input bytes, filename, entry point). Grammars: generated grammar programs (free of the library's own 'grammar bug' constructs) and 17 of the repository's example grammars compiled from a copy of their current sources. Inputs: renderings and token edits of derivations, arbitrary bytes incl. invalid UTF-8 and NUL, soup, the examples' own corpus files truncated/spliced/duplicated/mutated, the empty input, and synthesised flat (n=100 vs 10^4; thorough 10^5) and nested (10/20/300 levels) families. Monitors: panic flag on ParseString/ParseBytes/Parse and Parser.Lex; error oracle on every non-nil error (participle.Error; filename; offset within bounds; line/column recomputed from the offset; text = position + message; unexpected-token errors name the token Parser.Lex has at that position; nil AST iff lexing failed); Trace-depth monitor: constant depth on flat families, depth linear in nesting. Non-trivial: every non-empty input (each is judged by the full oracle). Distinct by (grammar, input). Additional fixed parts in batch 0: capture targets (user types implementing Capture / encoding.TextUnmarshaler with pointer and value receivers as field, pointer, slice, slice of pointers; every base type under up to two pointer/slice wrappers made with reflect.StructOf x 10 capture expressions - whatever Build accepts is parsed on 17 inputs), and a stateful lexer whose Pop rule can be reached with nothing to pop (the action failure must come back as a located participle.Error).",
		Assumptions: []string{"for the two examples with Parseable/ParseTypeWith user code only the panic monitor and the AST-nil rule are applied", "exponential (grammar,input) pairs are skipped by the reference-cost guard for generated grammars; hangs on example grammars are decided by the child watchdog plus isolated re-run", "thrift/ebnf/generics examples are not included (thrift's test dependency is not cached; the others add nothing)"},
		Batches:     func(t string) int { return pick(t, 4, 16) },
		Floor:       func(t string) int { return pick(t, 3000, 30000) },
		TimeoutSec:  func(t string) int { return pick(t, 400, 3600) },
		Prepare: gramPrepareEx("C06", func(t string) int { return pick(t, 60, 300) }, c06Opts, witnessExtra, false, func(dir string) error {
			_, err := gram.EmitExamples(dir, c06Examples)
			return err
		}),
		Child: c06Child,
	})
}
