package props

import (
	"fmt"
	"regexp"
	"strings"

	"github.com/alecthomas/participle/v2/lexer"

	"verifharness/lexgen"
	"verifharness/mon"
)

// C07: lexing any input terminates, makes progress and never panics.

var frameFn = regexp.MustCompile(`participle/v2[^\s(]*\.([A-Za-z0-9_.()*]+)\(`)
var digitsRe = regexp.MustCompile(`\d+`)

// c07PanicClass names a panic by its call site (first participle frame) and
// the kind of runtime error, so a catalogued panic is told apart from any other.
func c07PanicClass(stack, val string) string {
	site := "?"
	for _, part := range strings.Split(stack, " | ") {
		if m := frameFn.FindStringSubmatch(part); m != nil && !strings.Contains(part, "mon.Guard") {
			site = m[1]
			break
		}
	}
	kind := val
	if i := strings.Index(kind, " with "); i > 0 {
		kind = kind[:i]
	}
	kind = digitsRe.ReplaceAllStringFunc(kind, func(s string) string {
		if s == "0" || s == "1" {
			return s
		}
		return "N"
	})
	if len(kind) > 60 {
		kind = kind[:60]
	}
	return "panic@" + site + ":" + strings.ReplaceAll(kind, " ", "-")
}

// c07Drive runs the totality/progress/EOF-idempotence monitors on one lexer.
func c07Drive(c *mon.Child, key string, lx lexer.Lexer, names map[lexer.TokenType]string, in string, desc func() string, detail func() interface{}) (res *realLex) {
	real := lexAll(lx, names, len(in)+2)
	if real.Panicked {
		c.Violation(c07PanicClass(real.Stack, real.PanicVal), key, fmt.Sprintf("Next panicked (%s) after %d tokens at %s | %s", real.PanicVal, len(real.Toks), real.Stack, desc()), detail())
		return real
	}
	if len(real.Toks) > len(in) {
		c.Violation("", key, fmt.Sprintf("%d tokens from %d input bytes (no progress) | %s", len(real.Toks), len(in), desc()), detail())
		return real
	}
	prevEnd := 0
	for i, t := range real.Toks {
		if t.Tok.Value == "" {
			c.Violation("", key, fmt.Sprintf("token #%d %s is empty | %s", i, t.Name, desc()), detail())
			return real
		}
		if t.Tok.Pos.Offset < prevEnd {
			c.Violation("", key, fmt.Sprintf("token #%d %s at offset %d overlaps the previous token ending at %d | %s", i, t.Name, t.Tok.Pos.Offset, prevEnd, desc()), detail())
			return real
		}
		prevEnd = t.Tok.Pos.Offset + len(t.Tok.Value)
	}
	// After EOF: further calls return EOF at the same position. After an
	// error: further calls must not panic.
	for k := 0; k < 3; k++ {
		var t lexer.Token
		var err error
		p, v, st := mon.Guard(func() { t, err = lx.Next() })
		if p {
			c.Violation(c07PanicClass(st, v), key, fmt.Sprintf("Next call #%d after the end panicked (%s) at %s | %s", k+1, v, st, desc()), detail())
			return real
		}
		if real.EOF != nil {
			if err != nil {
				c.Violation("", key, fmt.Sprintf("Next call #%d after EOF returned error %q | %s", k+1, err.Error(), desc()), detail())
				return real
			}
			if t.Type != lexer.EOF || t.Pos != real.EOF.Pos {
				c.Violation("", key, fmt.Sprintf("Next call #%d after EOF returned %#v, first EOF was %#v | %s", k+1, t, *real.EOF, desc()), detail())
				return real
			}
		}
	}
	return real
}

// c07Witnesses are the (rule map, inputs) pairs on which the panics repaired
// in /repo were first seen; they run first in every batch-0 child.
func c07Witnesses() []struct {
	g      *lexgen.GMap
	inputs []string
} {
	mk := func(states []string, rules map[string][]lexgen.GRule) *lexgen.GMap {
		return &lexgen.GMap{States: states, Rules: rules}
	}
	return []struct {
		g      *lexgen.GMap
		inputs []string
	}{
		{mk([]string{"Root"}, map[string][]lexgen.GRule{"Root": {{Name: "B", Pattern: `-`, Action: "pop"}, {Name: "X", Pattern: `[a-z]`}}}), []string{"-x", "-", "x-", "x--x"}},
		{mk([]string{"Root"}, map[string][]lexgen.GRule{"Root": {{Name: "A", Pattern: `a`}, {Action: "return"}}}), []string{"b", "ab", "aab"}},
		{mk([]string{"Root", "S1"}, map[string][]lexgen.GRule{
			"Root": {{Name: "P", Pattern: `(<)?\(([a-c]*)`, Action: "push", Target: "S1"}, {Name: "W", Pattern: `\s+`}},
			"S1":   {{Name: "E", Pattern: `\2\)`, Action: "pop"}, {Name: "X", Pattern: `[^)]`}, {Action: "return"}}}), []string{"(ab", "<(ab", "(ab ab)", "(ab)) x"}},
		// a very long run of consecutive lexer-elided tokens must not grow the stack
		{mk([]string{"Root"}, map[string][]lexgen.GRule{"Root": {{Name: "comment", Pattern: `#[^\n]*`}, {Name: "nl", Pattern: `\n`}, {Name: "Id", Pattern: `[a-z]+`}}}), []string{strings.Repeat("# c\n", 400000) + "x", strings.Repeat("\n", 1000000)}},
		{mk([]string{"Root", "S1"}, map[string][]lexgen.GRule{
			"Root": {{Action: "include", Target: "S1"}, {Name: "Open", Pattern: `\(`, Action: "push", Target: "S1"}},
			"S1":   {{Name: "Close", Pattern: `\)`, Action: "pop"}, {Name: "Id", Pattern: `[a-z]+`}, {Action: "return"}}}), []string{")", "a)", "(a))b", "(a))", "((a)"}},
	}
}

func c07Child(c *mon.Child) {
	if c.Batch == 0 {
		for wi, w := range c07Witnesses() {
			def, err, panicked, _ := buildDef(w.g)
			if panicked || err != nil {
				c.Violation("", fmt.Sprintf("w%d", wi), fmt.Sprintf("witness definition is not accepted any more: %v | %s", err, w.g.String()), nil)
				continue
			}
			for ii, in := range w.inputs {
				key := fmt.Sprintf("w%d.i%d", wi, ii)
				if !c.Want(key) {
					continue
				}
				g, in := w.g, in
				c.Begin(key, fmt.Sprintf("witness %s <- %q", g.String(), trunc(in, 200)))
				c.Eval(1)
				lx, _ := def.LexString("w", in)
				c07Drive(c, key, lx, symNames(def), in, func() string { return "witness rules: " + g.String() + fmt.Sprintf(" | input: %q", trunc(in, 200)) }, func() interface{} { return map[string]interface{}{"rules": g, "input": trunc(in, 2000)} })
				c.Feature("witness_cases_of_repaired_panics")
				c.End(key)
			}
		}
	}
	nMaps := c.N(200, 2500)
	nInputs := c.N(100, 300)
	for mi := 0; mi < nMaps; mi++ {
		r := c.RNG("map", mi)
		o := &lexgen.MapOpts{Backrefs: true, MaxStates: 5, Elide: true, Hostile: true, Plain: r.Chance(1, 3), OddNames: true}
		g := lexgen.GenMap(r, o)
		def, err, panicked, _ := buildDef(g)
		if panicked || err != nil {
			c.Feature("constructor_rejected_or_panicked")
			continue
		}
		c.Feature("maps_accepted")
		names := symNames(def)
		inputs := lexInputs(r.Fork("inputs"), g, nInputs)
		// unbalanced closers / return pressure: a few very long walks
		for k := 0; k < 3; k++ {
			inputs = append(inputs, g.SampleInput(r.Fork("long", k), 400))
		}
		for ii, in := range inputs {
			key := fmt.Sprintf("m%d.i%d", mi, ii)
			if !c.Want(key) {
				continue
			}
			c.Begin(key, fmt.Sprintf("%s <- %q", trunc(g.String(), 300), in))
			c.Eval(1)
			lx, lerr := def.LexString("f", in)
			if lerr != nil {
				c.Violation("", key, "LexString returned an error: "+lerr.Error(), nil)
				c.End(key)
				continue
			}
			desc := func() string { return "rules: " + trunc(g.String(), 600) + fmt.Sprintf(" | input: %q", trunc(in, 200)) }
			detail := func() interface{} { return map[string]interface{}{"rules": g, "input": in} }
			real := c07Drive(c, key, lx, names, in, desc, detail)
			ref := lexgen.RefLex(g, in)
			nt := 0
			if ref.Undefined {
				nt += 2
				c.Feature("inputs_popping_or_returning_on_initial_state")
			}
			if ref.NonParticip > 0 {
				nt += 2
				c.Feature("inputs_pushing_with_nonparticipating_group")
			}
			if ref.ErrOffset >= 0 || real.Err != nil {
				nt++
				c.Feature("inputs_ending_in_error")
			}
			if ref.MaxDepth >= 3 {
				nt++
			}
			c.FeatureMax("max:stack_depth", int64(ref.MaxDepth))
			if ref.BackrefUses > 0 {
				nt++
				c.Feature("inputs_with_backref_match")
			}
			if real.EOF != nil {
				c.Feature("inputs_lexed_to_eof_then_3_more_calls")
			}
			if nt >= 2 {
				c.Nontrivial(g.String() + "\x00" + in)
				c.Sample(map[string]interface{}{"rules": g.String(), "input": trunc(in, 120), "tokens": len(real.Toks)})
			}
			c.End(key)
		}
	}
}

func init() {
	Register(&mon.Spec{
		ID:   "C07",
		Rule: "case = (hostile generated rule map accepted by lexer.New: Pop/Return reachable from Root, optional groups in pushing rules, back-references incl. to missing groups; input walked from the map then damaged, or soup). Every Next call runs under a panic monitor; tokens must be non-empty, non-overlapping and at most len(input); three more calls after EOF must return the same EOF; calls after an error must not panic. Non-trivial: >=2 of {Pop/Return on the initial state, push with non-participating group (counts double), input ends in an error, stack depth>=3, back-reference matched}. Distinct by (rule map, input).",
		Assumptions: []string{
			"termination of one Next call is decided by the process watchdog plus isolated re-run (a runtime lexer Next has no step counter); token-count bound decides progress",
			"definitions with cyclic includes or duplicate names with different patterns are not accepted by the constructor and are not generated",
		},
		Batches:    func(t string) int { return pick(t, 4, 16) },
		Floor:      func(t string) int { return pick(t, 200, 4000) },
		TimeoutSec: func(t string) int { return pick(t, 120, 3000) },
		Child:      c07Child,
	})
}
