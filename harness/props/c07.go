package props

import (
	"fmt"
	"regexp"
	"regexp/syntax"
	"strings"
	"time"

	"github.com/alecthomas/participle/v2/lexer"

	"verifharness/lexgen"
	"verifharness/mon"
)

// C07: lexing any input terminates, makes progress and never panics.

var frameFn = regexp.MustCompile(`participle/v2[^\s(]*\.([A-Za-z0-9_.()*]+)\(`)
var digitsRe = regexp.MustCompile(`\d+`)

// c07PanicClass names a panic by its call site (first participle frame) and
// the kind of runtime error, so a catalogued panic is told apart from any other.
func c07PanicClass(stack, val string) string {
	site := "?"
	for _, part := range strings.Split(stack, " | ") {
		if m := frameFn.FindStringSubmatch(part); m != nil && !strings.Contains(part, "mon.Guard") {
			site = m[1]
			break
		}
	}
	kind := val
	if i := strings.Index(kind, " with "); i > 0 {
		kind = kind[:i]
	}
	kind = digitsRe.ReplaceAllStringFunc(kind, func(s string) string {
		if s == "0" || s == "1" {
			return s
		}
		return "N"
	})
	if len(kind) > 60 {
		kind = kind[:60]
	}
	return "panic@" + site + ":" + strings.ReplaceAll(kind, " ", "-")
}

// c07Drive runs the totality/progress/EOF-idempotence monitors on one lexer.
func c07Drive(c *mon.Child, key string, lx lexer.Lexer, names map[lexer.TokenType]string, in string, desc func() string, detail func() interface{}) (res *realLex) {
	real := lexAll(lx, names, len(in)+2)
	if real.Panicked {
		c.Violation(c07PanicClass(real.Stack, real.PanicVal), key, fmt.Sprintf("Next panicked (%s) after %d tokens at %s | %s", real.PanicVal, len(real.Toks), real.Stack, desc()), detail())
		return real
	}
	if len(real.Toks) > len(in) {
		c.Violation("", key, fmt.Sprintf("%d tokens from %d input bytes (no progress) | %s", len(real.Toks), len(in), desc()), detail())
		return real
	}
	prevEnd := 0
	for i, t := range real.Toks {
		if t.Tok.Value == "" {
			c.Violation("", key, fmt.Sprintf("token #%d %s is empty | %s", i, t.Name, desc()), detail())
			return real
		}
		if t.Tok.Pos.Offset < prevEnd {
			c.Violation("", key, fmt.Sprintf("token #%d %s at offset %d overlaps the previous token ending at %d | %s", i, t.Name, t.Tok.Pos.Offset, prevEnd, desc()), detail())
			return real
		}
		prevEnd = t.Tok.Pos.Offset + len(t.Tok.Value)
	}
	// After EOF: further calls return EOF at the same position. After an
	// error: further calls must not panic.
	for k := 0; k < 3; k++ {
		var t lexer.Token
		var err error
		p, v, st := mon.Guard(func() { t, err = lx.Next() })
		if p {
			c.Violation(c07PanicClass(st, v), key, fmt.Sprintf("Next call #%d after the end panicked (%s) at %s | %s", k+1, v, st, desc()), detail())
			return real
		}
		if real.EOF != nil {
			if err != nil {
				c.Violation("", key, fmt.Sprintf("Next call #%d after EOF returned error %q | %s", k+1, err.Error(), desc()), detail())
				return real
			}
			if t.Type != lexer.EOF || t.Pos != real.EOF.Pos {
				c.Violation("", key, fmt.Sprintf("Next call #%d after EOF returned %#v, first EOF was %#v | %s", k+1, t, *real.EOF, desc()), detail())
				return real
			}
		}
	}
	return real
}

// c07Witnesses are the (rule map, inputs) pairs on which the panics repaired
// in /repo were first seen; they run first in every batch-0 child.
func c07Witnesses() []struct {
	g      *lexgen.GMap
	inputs []string
} {
	mk := func(states []string, rules map[string][]lexgen.GRule) *lexgen.GMap {
		return &lexgen.GMap{States: states, Rules: rules}
	}
	return []struct {
		g      *lexgen.GMap
		inputs []string
	}{
		{mk([]string{"Root"}, map[string][]lexgen.GRule{"Root": {{Name: "B", Pattern: `-`, Action: "pop"}, {Name: "X", Pattern: `[a-z]`}}}), []string{"-x", "-", "x-", "x--x"}},
		{mk([]string{"Root"}, map[string][]lexgen.GRule{"Root": {{Name: "A", Pattern: `a`}, {Action: "return"}}}), []string{"b", "ab", "aab"}},
		{mk([]string{"Root", "S1"}, map[string][]lexgen.GRule{
			"Root": {{Name: "P", Pattern: `(<)?\(([a-c]*)`, Action: "push", Target: "S1"}, {Name: "W", Pattern: `\s+`}},
			"S1":   {{Name: "E", Pattern: `\2\)`, Action: "pop"}, {Name: "X", Pattern: `[^)]`}, {Action: "return"}}}), []string{"(ab", "<(ab", "(ab ab)", "(ab)) x"}},
		// a very long run of consecutive lexer-elided tokens must not grow the stack
		{mk([]string{"Root"}, map[string][]lexgen.GRule{"Root": {{Name: "comment", Pattern: `#[^\n]*`}, {Name: "nl", Pattern: `\n`}, {Name: "Id", Pattern: `[a-z]+`}}}), []string{strings.Repeat("# c\n", 400000) + "x", strings.Repeat("\n", 1000000)}},
		{mk([]string{"Root", "S1"}, map[string][]lexgen.GRule{
			"Root": {{Action: "include", Target: "S1"}, {Name: "Open", Pattern: `\(`, Action: "push", Target: "S1"}},
			"S1":   {{Name: "Close", Pattern: `\)`, Action: "pop"}, {Name: "Id", Pattern: `[a-z]+`}, {Action: "return"}}}), []string{")", "a)", "(a))b", "(a))", "((a)"}},
	}
}

// c07GenMapFor is the rule map behind the i-th generated lexer of a C07 batch:
// the first ones of batch 0 are fixed definitions whose repetitions have bodies
// that can complete an iteration without consuming (the one shape in which an
// emitted "repeat until the body fails" loop has no exit), the rest come from
// the supported-class generator.
func c07GenMapFor(seed int64, batch, i int) *lexgen.GMap {
	if batch == 0 && i >= 1 && i <= 3 {
		root := [][]lexgen.GRule{
			{{Name: "String", Pattern: `"(?:\\.|[^"\\]*)*"`}, {Name: "Ident", Pattern: `[a-z]+`}, {Name: "Punct", Pattern: `[=;]`}, {Name: "ws", Pattern: `\s+`}},
			{{Name: "List", Pattern: `\[(\w*,?)*\]`}, {Name: "Ident", Pattern: `[a-z]+`}, {Name: "ws", Pattern: `\s+`}},
			{{Name: "Open", Pattern: `\(`, Action: "push", Target: "In"}, {Name: "Word", Pattern: `(?:[a-z]*-?)+x`}, {Name: "ws", Pattern: `\s+`}},
		}[i-1]
		g := &lexgen.GMap{States: []string{"Root"}, Rules: map[string][]lexgen.GRule{"Root": root}}
		if i == 3 {
			g.States = append(g.States, "In")
			g.Rules["In"] = []lexgen.GRule{{Name: "Close", Pattern: `\)`, Action: "pop"}, {Name: "Body", Pattern: `(?:[^()]*)+`}}
		}
		return g
	}
	return lexMapFor("C07", seed, batch, i)
}

// c07Generated drives the Go lexers `participle gen lexer` emits for rule maps
// of the generator's supported class (compiled into this child by the prepare
// step) with the same monitors as the runtime lexer. Whether a Next call
// returns at all is decided as in C05: the PEG model of the emitted matchers
// predicts a repetition whose body completes an iteration without consuming,
// and the generated lexer, run on the side, does not come back.
func c07Generated(c *mon.Child) {
	hangs := 0
	for _, idx := range lexgen.GeneratedOrder {
		gen := lexgen.Generated[idx]
		g := c07GenMapFor(c.Seed, c.Batch, idx)
		def, err, _, _ := buildDef(g)
		if err != nil || def == nil {
			continue
		}
		rules := map[string]*c05Rule{}
		okRules := true
		for _, rs := range g.Rules {
			for _, ru := range rs {
				if ru.Pattern == "" || rules[ru.Name] != nil {
					continue
				}
				tree, err := syntax.Parse(ru.Pattern, syntax.Perl)
				re, err2 := regexp.Compile(`\A(?:` + ru.Pattern + `)`)
				if err != nil || err2 != nil {
					okRules = false
					continue
				}
				rules[ru.Name] = &c05Rule{re: re, tree: tree.Simplify(), ops: map[string]bool{}}
			}
		}
		if !okRules {
			continue
		}
		c.Feature("generated_lexers_driven")
		names := symNames(def)
		r := c.RNG("geninputs", idx)
		inputs := lexInputs(r, g, c.N(40, 120))
		if c.Batch == 0 && idx >= 1 && idx <= 3 {
			inputs = append([]string{`x = "hello";`, `a = "b\"c" ; "" ;`, `[a,b,,c] x [] [,]`, `[ab`, `ab-cd-x (a(b)c) -x`, `(()`, `"abc`}, inputs...)
		}
		for ii, in := range inputs {
			key := fmt.Sprintf("g%d.i%d", idx, ii)
			if !c.Want(key) {
				continue
			}
			c.Begin(key, fmt.Sprintf("generated lexer %s <- %q", trunc(g.String(), 300), trunc(in, 200)))
			c.Eval(1)
			desc := func() string {
				return "generated lexer, rules: " + trunc(g.String(), 600) + fmt.Sprintf(" | input: %q", trunc(in, 200))
			}
			detail := func() interface{} { return map[string]interface{}{"rules": g, "input": in, "generated": true} }
			if v := c05Model(g, rules, in); v.HangAt >= 0 {
				c.Feature("generated_inputs_with_empty_iteration_in_a_repetition")
				if hangs >= 2 {
					c.End(key)
					continue
				}
				done := make(chan struct{})
				go func() {
					defer close(done)
					defer func() { recover() }()
					if lx, err := gen.(lexer.StringDefinition).LexString("", in); err == nil {
						lexAll(lx, names, len(in)+2)
					}
				}()
				select {
				case <-done:
				case <-time.After(5 * time.Second):
					hangs++
					c.Violation("generated-matcher-loops-on-empty-iteration", key, fmt.Sprintf("Next of the generated lexer does not return: the matcher for rule %s at offset %d repeats a body that completes an iteration without consuming (predicted by the model of the emitted code, and the call did not come back) | %s", v.HangRule, v.HangAt, desc()), detail())
					c.End(key)
					continue
				}
			}
			var lx lexer.Lexer
			var lerr error
			switch ii % 3 {
			case 0:
				lx, lerr = gen.(lexer.StringDefinition).LexString("g", in)
			case 1:
				lx, lerr = gen.(lexer.BytesDefinition).LexBytes("g", []byte(in))
			default:
				lx, lerr = gen.Lex("g", strings.NewReader(in))
			}
			if lerr != nil {
				c.Violation("", key, "generated definition's Lex* returned an error: "+lerr.Error()+" | "+desc(), detail())
				c.End(key)
				continue
			}
			real := c07Drive(c, key, lx, names, in, desc, detail)
			c.Feature("generated_lexer_inputs_driven")
			if real.Err != nil {
				c.Feature("generated_lexer_inputs_ending_in_error")
			}
			ref := lexgen.RefLex(g, in)
			if ref.MaxDepth >= 2 && (real.Err != nil || ref.Undefined) {
				c.Nontrivial("generated" + g.String() + "\x00" + in)
			}
			c.End(key)
		}
	}
}

func c07Child(c *mon.Child) {
	c07Generated(c)
	if c.Batch == 0 {
		for wi, w := range c07Witnesses() {
			def, err, panicked, _ := buildDef(w.g)
			if panicked || err != nil {
				c.Violation("", fmt.Sprintf("w%d", wi), fmt.Sprintf("witness definition is not accepted any more: %v | %s", err, w.g.String()), nil)
				continue
			}
			for ii, in := range w.inputs {
				key := fmt.Sprintf("w%d.i%d", wi, ii)
				if !c.Want(key) {
					continue
				}
				g, in := w.g, in
				c.Begin(key, fmt.Sprintf("witness %s <- %q", g.String(), trunc(in, 200)))
				c.Eval(1)
				lx, _ := def.LexString("w", in)
				c07Drive(c, key, lx, symNames(def), in, func() string { return "witness rules: " + g.String() + fmt.Sprintf(" | input: %q", trunc(in, 200)) }, func() interface{} { return map[string]interface{}{"rules": g, "input": trunc(in, 2000)} })
				c.Feature("witness_cases_of_repaired_panics")
				c.End(key)
			}
		}
	}
	nMaps := c.N(200, 2500)
	nInputs := c.N(100, 300)
	for mi := 0; mi < nMaps; mi++ {
		r := c.RNG("map", mi)
		o := &lexgen.MapOpts{Backrefs: true, MaxStates: 5, Elide: true, Hostile: true, Plain: r.Chance(1, 3), OddNames: true}
		g := lexgen.GenMap(r, o)
		def, err, panicked, _ := buildDef(g)
		if panicked || err != nil {
			c.Feature("constructor_rejected_or_panicked")
			continue
		}
		c.Feature("maps_accepted")
		names := symNames(def)
		inputs := lexInputs(r.Fork("inputs"), g, nInputs)
		// unbalanced closers / return pressure: a few very long walks
		for k := 0; k < 3; k++ {
			inputs = append(inputs, g.SampleInput(r.Fork("long", k), 400))
		}
		for ii, in := range inputs {
			key := fmt.Sprintf("m%d.i%d", mi, ii)
			if !c.Want(key) {
				continue
			}
			c.Begin(key, fmt.Sprintf("%s <- %q", trunc(g.String(), 300), in))
			c.Eval(1)
			lx, lerr := def.LexString("f", in)
			if lerr != nil {
				c.Violation("", key, "LexString returned an error: "+lerr.Error(), nil)
				c.End(key)
				continue
			}
			desc := func() string { return "rules: " + trunc(g.String(), 600) + fmt.Sprintf(" | input: %q", trunc(in, 200)) }
			detail := func() interface{} { return map[string]interface{}{"rules": g, "input": in} }
			real := c07Drive(c, key, lx, names, in, desc, detail)
			ref := lexgen.RefLex(g, in)
			nt := 0
			if ref.Undefined {
				nt += 2
				c.Feature("inputs_popping_or_returning_on_initial_state")
			}
			if ref.NonParticip > 0 {
				nt += 2
				c.Feature("inputs_pushing_with_nonparticipating_group")
			}
			if ref.ErrOffset >= 0 || real.Err != nil {
				nt++
				c.Feature("inputs_ending_in_error")
			}
			if ref.MaxDepth >= 3 {
				nt++
			}
			c.FeatureMax("max:stack_depth", int64(ref.MaxDepth))
			if ref.BackrefUses > 0 {
				nt++
				c.Feature("inputs_with_backref_match")
			}
			if real.EOF != nil {
				c.Feature("inputs_lexed_to_eof_then_3_more_calls")
			}
			if nt >= 2 {
				c.Nontrivial(g.String() + "\x00" + in)
				c.Sample(map[string]interface{}{"rules": g.String(), "input": trunc(in, 120), "tokens": len(real.Toks)})
			}
			c.End(key)
		}
	}
}

func init() {
	Register(&mon.Spec{
		ID:   "C07",
		Rule: "case = (hostile generated rule map accepted by lexer.New: Pop/Return reachable from Root, optional groups in pushing rules, back-references incl. to missing groups; input walked from the map then damaged, or soup). Every Next call runs under a panic monitor; tokens must be non-empty, non-overlapping and at most len(input); three more calls after EOF must return the same EOF; calls after an error must not panic. Non-trivial: >=2 of {Pop/Return on the initial state, push with non-participating group (counts double), input ends in an error, stack depth>=3, back-reference matched}. Distinct by (rule map, input).",
		Assumptions: []string{
			"termination of one Next call is decided by the process watchdog plus isolated re-run (a runtime lexer Next has no step counter); token-count bound decides progress",
			"definitions with cyclic includes or duplicate names with different patterns are not accepted by the constructor and are not generated",
		},
		Batches:    func(t string) int { return pick(t, 4, 16) },
		Floor:      func(t string) int { return pick(t, 200, 4000) },
		TimeoutSec: func(t string) int { return pick(t, 120, 3000) },
		Prepare:    lexProgPrepare("C07", func(t string) int { return pick(t, 30, 100) }),
		Child:      c07Child,
	})
}
