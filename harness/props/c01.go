package props

import (
	"fmt"
	"io"
	"strings"

	"github.com/alecthomas/participle/v2"
	"github.com/alecthomas/participle/v2/lexer"

	"verifharness/gram"
	"verifharness/mon"
)

// C01: parse result equals the ordered-choice, bounded-backtracking meaning.
// C02: abandoned attempts leave no trace (same engine, different generator
// bias, judged only on successful parses).

func c01Opts(r *mon.RNG, i int) *gram.GenOpts {
	prof := []int{gram.ProfStateful, gram.ProfStateful, gram.ProfDefault, gram.ProfLower, gram.ProfScanCfg}[i%5]
	o := &gram.GenOpts{Profile: prof, MaxProds: 5, Budget: 14 + r.Intn(14) + (i/90)*6, Depth: 2 + r.Intn(3) + i/150, TokKinds: i%3 == 0, Unions: true,
		SharePrefix: 6, CaptureBias: 4, SubBias: 3, AllowBang: true, NamesElided: i%7 == 3, CatchAll: 2, MoreUnions: i%6 == 5, EOFRefs: i%2 == 0, CapTypes: i%4 == 2}
	if o.NamesElided {
		o.Profile = gram.ProfStateful // only this profile has elided token types a grammar can name
	}
	return o
}

func c02Opts(r *mon.RNG, i int) *gram.GenOpts {
	prof := []int{gram.ProfStateful, gram.ProfDefault, gram.ProfStateful, gram.ProfLower}[i%4]
	return &gram.GenOpts{Profile: prof, MaxProds: 5, Budget: 16 + r.Intn(14) + (i/90)*6, Depth: 3 + r.Intn(3) + i/150, TokKinds: false, Unions: true,
		SharePrefix: 8, CaptureBias: 7, SubBias: 6, AllowBang: false, CatchAll: 4, MoreUnions: i%5 == 4, CapTypes: i%3 == 1}
}

type sliceLex struct {
	toks []lexer.Token
	i    int
}

func (s *sliceLex) Next() (lexer.Token, error) {
	if s.i >= len(s.toks) {
		return s.toks[len(s.toks)-1], nil
	}
	t := s.toks[s.i]
	s.i++
	return t, nil
}

func c0102Child(mode string) mon.ChildFunc {
	return func(c *mon.Child) {
		if mode == "C01" && c.Batch == 0 {
			c01NestedCaptures(c)
		}
		nInputs := c.N(120, 220)
		ks := allKs
		if mode == "C02" {
			ks = []int{1, 2, 5, 50, participle.MaxLookahead, -1}
		}
		for gi, h := range gram.WithSubHandles(4) {
			gp := buildAll(h, ks, gi%3 == 1)
			if gp.err != nil {
				c.Feature("grammars_not_built")
				c.Note("build_error_"+h.ID, trunc(gp.err.Error(), 300))
				continue
			}
			g := gp.g
			c.Feature("grammars_built")
			r := c.RNG("inputs", h.ID)
			smp := gram.NewSampler(g, r)
			inputs := append(featInputs(g), smp.Inputs(nInputs)...)
			exhaustive := 0
			if c.Thorough() && gi%4 == 0 {
				// all strings up to length 5 over <=4 terminals of the grammar's own alphabet
				smp.Exhaustive(4, 5, func(t []string) {
					inputs = append(inputs, append([]string{}, t...))
					exhaustive++
				})
				c.Feature("grammars_with_exhaustive_short_inputs")
			}
			gdesc := trunc(g.String(), 900)
			for ii, toks := range inputs {
				key := fmt.Sprintf("%s.i%d", h.ID, ii)
				if !c.Want(key) {
					continue
				}
				style := ii % 5
				text := gram.Render(g.Profile, toks, style, r.Fork("render", ii))
				c.Begin(key, fmt.Sprintf("%s <- %q", trunc(gdesc, 300), text))
				var T []lexer.Token
				var lerr error
				mon.Guard(func() { T, lerr = gp.byK[ks[0]].Lex("", strings.NewReader(text)) })
				if lerr != nil || T == nil {
					c.Feature("inputs_not_lexable")
					c.End(key)
					continue
				}
				trailing := ii%4 == 3
				for _, k := range ks {
					c.Eval(1)
					env := gram.NewEnv(g, T, gp.sym, gp.elided, gp.ci, k, trailing)
					ref := env.Run()
					if env.Over {
						c.Inconclusive("reference-step-budget")
						continue
					}
					if env.Unspec != "" {
						c.Unspecified(env.Unspec)
						continue
					}
					var rr realResult
					viaLexer := ii%4 == 1
					if viaLexer {
						// the same tokens through ParseFromLexer from an in-memory lexer
						rr = realParse(func() (interface{}, error) {
							var el []lexer.TokenType
							for _, n := range gp.elided {
								el = append(el, gp.sym[n])
							}
							pl, err := lexer.Upgrade(&sliceLex{toks: T}, el...)
							if err != nil {
								return nil, err
							}
							return gp.byK[k].ParseFromLexer(pl, participle.AllowTrailing(trailing))
						})
					} else {
						rr = realParse(func() (interface{}, error) {
							if ii%12 == 11 {
								// tracing is an observer: the result must be the same with it switched on
								return gp.byK[k].ParseString("", text, participle.AllowTrailing(trailing), participle.Trace(io.Discard))
							}
							switch ii % 12 {
							case 2, 3:
								// the other entry points take the same parse options (C15 compares them pairwise;
								// here each is judged against the reference on its own)
								return gp.byK[k].ParseBytes("", []byte(text), participle.AllowTrailing(trailing))
							case 6, 7:
								return gp.byK[k].Parse("", strings.NewReader(text), participle.AllowTrailing(trailing))
							}
							return gp.byK[k].ParseString("", text, participle.AllowTrailing(trailing))
						})
						switch ii % 12 {
						case 2, 3:
							c.Feature("via_ParseBytes")
						case 6, 7:
							c.Feature("via_Parse_reader")
						}
						if ii%12 == 11 {
							c.Feature("parses_with_Trace_switched_on")
						}
					}
					cfg := fmt.Sprintf("lookahead=%s trailing=%v ci=%v", kName(k), trailing, gp.ci)
					report := func(class, what string) {
						c.Violation(class, key, fmt.Sprintf("%s | %s | grammar: %s | input: %q", what, cfg, gdesc, text),
							map[string]interface{}{"grammar": g, "input": text, "tokens": toks, "config": cfg, "difference": what})
					}
					if rr.Panicked {
						report(c07PanicClass(rr.Stack, rr.PanicVal), fmt.Sprintf("parser panicked: %s at %s (reference: accept=%v)", rr.PanicVal, rr.Stack, ref.OK))
						continue
					}
					realOK := rr.Err == nil
					if mode == "C01" && realOK != ref.OK {
						es := ""
						if rr.Err != nil {
							es = rr.Err.Error()
						}
						report("", fmt.Sprintf("accept/reject differs: real ok=%v (%s), documented meaning accepts=%v", realOK, es, ref.OK))
						continue
					}
					if realOK && ref.OK {
						var ds []gram.Diff
						gram.Compare(g, T, rr.AST, ref.Root, "root", &ds)
						if len(ds) > 0 {
							txt, class := diffsText(ds)
							report(class, "AST differs from the accepted derivation's captures: "+txt)
						}
					}
					// coverage
					tr := &env.Tr
					nontrivial := false
					if mode == "C01" {
						nontrivial = tr.Abandoned+tr.Committed > 0
					} else {
						nontrivial = realOK && ref.OK && tr.AbandonedWithCaps > 0
						if nontrivial {
							c.Feature("successful_parses_after_abandoning_an_attempt_with_captures")
						}
					}
					traceFeatures(c, tr)
					if ref.OK {
						c.Feature("reference_accepts")
					} else {
						c.Feature("reference_rejects")
					}
					if viaLexer {
						c.Feature("via_ParseFromLexer")
					}
					if nontrivial {
						c.Nontrivial(h.IR + "\x00" + strings.Join(toks, " ") + "\x00" + cfg)
						if ii%17 == 0 && k == ks[1] {
							c.Sample(map[string]interface{}{"grammar": gdesc, "input": text, "config": cfg, "accepted": ref.OK,
								"abandoned": tr.Abandoned, "committed": tr.Committed, "abandoned_with_captures": tr.AbandonedWithCaps})
						}
					}
				}
				c.End(key)
			}
			if exhaustive > 0 {
				c.FeatureN("exhaustive_short_inputs", int64(exhaustive))
			}
		}
	}
}

func init() {
	Register(&mon.Spec{
		ID:   "C01",
		Rule: "case = (generated grammar program compiled against the current tree, token string rendered to text, lookahead in {0,1,2,3,5,8,50,MaxLookahead,unlimited}, AllowTrailing, CaseInsensitive set). The real parser's error nil-ness and every captured field are compared with an independent denotational evaluator of the documented tag-language meaning run on the tokens Parser.Lex returned. Non-trivial: the reference trace abandoned or committed at least one failed attempt. Distinct by (grammar IR, token string, configuration).",
		Assumptions: []string{
			"reference semantics as in DESIGN.md 3.1.5, written from the README and the property text; trusted together with Go's strconv for int fields",
			"cases the documentation leaves open ('!' where value- and token-emptiness disagree; a scalar captured twice) are counted as unspecified and skipped",
			"grammars containing what the library itself treats as grammar bugs (nullable alternative / repetition body) or left recursion are not generated",
			"only nil-ness of the error is compared, not its text",
		},
		Batches:    func(t string) int { return pick(t, 4, 16) },
		Floor:      func(t string) int { return pick(t, 5000, 100000) },
		TimeoutSec: func(t string) int { return pick(t, 300, 3600) },
		Prepare:    gramPrepare("C01", func(t string) int { return pick(t, 90, 220) }, c01Opts, witnessExtra, false),
		Child:      c0102Child("C01"),
	})
	Register(&mon.Spec{
		ID:   "C02",
		Rule: "case = as C01 with a generator biased to 'capture, nested production, failure, another path wins' (alternatives sharing prefixes, captures and @@ before failure points, inside ?,*,+, ~ and lookahead groups) and lookahead values large enough that deep attempts are abandoned. Judged on successful parses: the AST must equal the reference derivation's captures, in particular fields no accepted capture wrote must be zero. Non-trivial: a successful parse whose reference trace abandoned at least one attempt that had already captured. Distinct by (grammar IR, token string, configuration).",
		Assumptions: []string{
			"same reference semantics as C01; accept/reject disagreements are C01's business and not judged here",
		},
		Batches:    func(t string) int { return pick(t, 4, 16) },
		Floor:      func(t string) int { return pick(t, 1000, 20000) },
		TimeoutSec: func(t string) int { return pick(t, 300, 3600) },
		Prepare:    gramPrepare("C02", func(t string) int { return pick(t, 90, 220) }, c02Opts, witnessExtra, false),
		Child:      c0102Child("C02"),
	})
}
