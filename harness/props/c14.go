package props

import (
	"fmt"
	"sort"
	"strconv"
	"strings"

	"github.com/alecthomas/participle/v2/ebnf"

	"verifharness/gram"
	"verifharness/mon"
)

// C14: Parser.String() is valid, complete EBNF that survives a round trip.

func c14Opts(r *mon.RNG, i int) *gram.GenOpts {
	prof := []int{gram.ProfStateful, gram.ProfDefault, gram.ProfLower}[i%3]
	o := &gram.GenOpts{Profile: prof, MaxProds: 5, Budget: 12 + r.Intn(16), Depth: 2 + r.Intn(4), TokKinds: i%3 == 0, Unions: true,
		SharePrefix: 3, CaptureBias: 4, SubBias: 3, AllowBang: true, NamesElided: i%6 == 5, OddLits: true, WholeBody: true}
	if o.NamesElided {
		o.Profile = gram.ProfStateful // only this profile has elided token types a grammar can name
	}
	return o
}

// irCounts is the multiset of literals, token references, production
// references and operators of the productions reachable from the root.
func irCounts(g *gram.Grammar) (map[string]int, []string) {
	an := gram.Analyse(g)
	reach := an.Reachable()
	m := map[string]int{}
	var defined []string
	for _, p := range g.Prods {
		if !reach[p.Name] {
			continue
		}
		defined = append(defined, p.Name)
		gram.Walk(p.Expr, func(e *gram.Expr) {
			switch e.Op {
			case "lit":
				m["lit:"+strconv.Quote(e.Text)]++
			case "ref":
				m["tok:"+strings.ToLower(e.Typ)]++
			case "sub":
				m["prod:"+p.Fields[e.Field].Target]++
			case "neg":
				m["op:~"]++
			case "look":
				if e.Negative {
					m["op:(?!"]++
				} else {
					m["op:(?="]++
				}
			case "grp":
				if e.Mode != "" {
					m["op:"+e.Mode]++
				}
			}
		})
	}
	for _, u := range g.Unions {
		if !reach[u.Name] {
			continue
		}
		defined = append(defined, u.Name)
		for _, mem := range u.Members {
			m["prod:"+mem.Prod]++
		}
	}
	sort.Strings(defined)
	return m, defined
}

func ebnfCounts(e *ebnf.EBNF) (map[string]int, []string, map[string]int) {
	m := map[string]int{}
	var defined []string
	defCount := map[string]int{}
	var expr func(x *ebnf.Expression)
	expr = func(x *ebnf.Expression) {
		if x == nil {
			return
		}
		for _, seq := range x.Alternatives {
			for _, t := range seq.Terms {
				if t.Negation {
					m["op:~"]++
				}
				if t.Repetition != "" {
					m["op:"+t.Repetition]++
				}
				switch {
				case t.Name != "":
					m["prod:"+t.Name]++
				case t.Literal != "":
					m["lit:"+t.Literal]++
				case t.Token != "":
					m["tok:"+t.Token]++
				case t.Group != nil:
					switch t.Group.Lookahead {
					case ebnf.LookaheadAssertionNegative:
						m["op:(?!"]++
					case ebnf.LookaheadAssertionPositive:
						m["op:(?="]++
					}
					expr(t.Group.Expr)
				}
			}
		}
	}
	for _, p := range e.Productions {
		defined = append(defined, p.Production)
		defCount[p.Production]++
		expr(p.Expression)
	}
	sort.Strings(defined)
	return m, defined, defCount
}

func diffCounts(a, b map[string]int) string {
	var out []string
	keys := map[string]bool{}
	for k := range a {
		keys[k] = true
	}
	for k := range b {
		keys[k] = true
	}
	var ks []string
	for k := range keys {
		ks = append(ks, k)
	}
	sort.Strings(ks)
	for _, k := range ks {
		if a[k] != b[k] {
			out = append(out, fmt.Sprintf("%s: grammar %d, EBNF %d", k, a[k], b[k]))
		}
	}
	return strings.Join(out, "; ")
}

// c14Check runs the whole oracle on one built parser.
func c14Check(g *gram.Grammar, b gram.Built) (what string, class string, shape map[string]bool) {
	shape = map[string]bool{}
	var s string
	if p, pv, st := mon.Guard(func() { s = b.String() }); p {
		return "Parser.String() panicked: " + pv + " at " + st, "", shape
	}
	var tree *ebnf.EBNF
	var err error
	if p, pv, _ := mon.Guard(func() { tree, err = ebnf.ParseString(s) }); p {
		return "ebnf.ParseString panicked: " + pv + " | EBNF: " + trunc(s, 500), "", shape
	}
	if err != nil {
		cls := ""
		return fmt.Sprintf("the ebnf package cannot parse Parser.String(): %v | EBNF: %s", err, trunc(s, 700)), cls, shape
	}
	if len(tree.Productions) == 0 || tree.Productions[0].Production != g.Root {
		first := ""
		if len(tree.Productions) > 0 {
			first = tree.Productions[0].Production
		}
		return fmt.Sprintf("first production is %q, root is %q | EBNF: %s", first, g.Root, trunc(s, 500)), "", shape
	}
	want, wantDef := irCounts(g)
	got, gotDef, defCount := ebnfCounts(tree)
	for name, n := range defCount {
		if n != 1 {
			return fmt.Sprintf("production %s is defined %d times | EBNF: %s", name, n, trunc(s, 500)), "", shape
		}
	}
	if strings.Join(wantDef, ",") != strings.Join(gotDef, ",") {
		return fmt.Sprintf("defined productions differ: grammar %v, EBNF %v | EBNF: %s", wantDef, gotDef, trunc(s, 500)), "", shape
	}
	for k := range got {
		if strings.HasPrefix(k, "prod:") && defCount[k[5:]] == 0 {
			return fmt.Sprintf("production %s is referenced but never defined | EBNF: %s", k[5:], trunc(s, 500)), "", shape
		}
	}
	if d := diffCounts(want, got); d != "" {
		return fmt.Sprintf("EBNF does not contain exactly the grammar's literals/references/operators: %s | EBNF: %s", d, trunc(s, 700)), "", shape
	}
	// print/parse fixpoint of the EBNF tree
	var s2 string
	if p, pv, _ := mon.Guard(func() { s2 = tree.String() }); p {
		return "EBNF.String() panicked: " + pv + " | EBNF: " + trunc(s, 500), "", shape
	}
	tree2, err := ebnf.ParseString(s2)
	if err != nil {
		return fmt.Sprintf("printing the parsed EBNF tree gives text the ebnf package cannot parse: %v | printed: %s", err, trunc(s2, 700)), "", shape
	}
	got2, gotDef2, _ := ebnfCounts(tree2)
	if d := diffCounts(got, got2); d != "" || strings.Join(gotDef, ",") != strings.Join(gotDef2, ",") {
		return fmt.Sprintf("printing and re-parsing the EBNF tree loses or alters operators: %s | original: %s | printed: %s", d, trunc(s, 400), trunc(s2, 400)), "", shape
	}
	if s3 := tree2.String(); s3 != s2 {
		return fmt.Sprintf("EBNF print/parse is not a fixpoint: %q vs %q", trunc(s2, 300), trunc(s3, 300)), "", shape
	}
	// structure: the EBNF of every production must have the shape of the grammar (same nesting of
	// alternatives, sequences, negations, lookahead groups and modifiers, redundant parentheses aside)
	byName := map[string]*ebnf.Production{}
	for _, p := range tree.Productions {
		byName[p.Production] = p
	}
	reach := gram.Analyse(g).Reachable()
	for _, p := range g.Prods {
		if !reach[p.Name] {
			continue
		}
		ep := byName[p.Name]
		if ep == nil {
			continue
		}
		if a, b := nfIR(p, p.Expr), nfEBNF(ep.Expression); a != b {
			return fmt.Sprintf("EBNF of production %s does not have the structure of the grammar: grammar %s, EBNF %s | EBNF: %s", p.Name, a, b, trunc(s, 600)), "", shape
		}
	}
	// ParserForProduction must not disturb the parser it was derived from
	if sub, ok, err := b.SubString(); ok {
		if err != nil {
			return "ParserForProduction failed for a production of the grammar: " + err.Error(), "", shape
		}
		if _, perr := ebnf.ParseString(sub); perr != nil {
			return fmt.Sprintf("String() of a ParserForProduction parser is not valid EBNF: %v | %s", perr, trunc(sub, 400)), "", shape
		}
		var again string
		mon.Guard(func() { again = b.String() })
		if again != s {
			return fmt.Sprintf("Parser.String() changed after ParserForProduction was called: before %s | after %s", trunc(s, 300), trunc(again, 300)), "", shape
		}
		shape["ParserForProduction"] = true
	}
	for k := range want {
		if strings.HasPrefix(k, "op:") {
			shape[k] = true
		}
	}
	return "", "", shape
}

// ---- structural normal form shared by the IR and the parsed EBNF tree

func nfJoin(kind string, kids []string) string {
	// flatten nested nodes of the same kind, drop single-element wrappers
	var flat []string
	for _, k := range kids {
		if strings.HasPrefix(k, kind+"(") && strings.HasSuffix(k, ")") && nfBalanced(k[len(kind)+1:len(k)-1]) {
			flat = append(flat, nfSplit(k[len(kind)+1:len(k)-1])...)
		} else {
			flat = append(flat, k)
		}
	}
	if len(flat) == 1 {
		return flat[0]
	}
	return kind + "(" + strings.Join(flat, ",") + ")"
}

func nfBalanced(s string) bool {
	d := 0
	inq := false
	for i := 0; i < len(s); i++ {
		switch {
		case s[i] == '\\' && inq:
			i++
		case s[i] == '"':
			inq = !inq
		case inq:
		case s[i] == '(':
			d++
		case s[i] == ')':
			d--
			if d < 0 {
				return false
			}
		}
	}
	return d == 0
}

// nfSplit splits a comma-separated list at depth 0 (outside quotes).
func nfSplit(s string) []string {
	var out []string
	d, start := 0, 0
	inq := false
	for i := 0; i < len(s); i++ {
		switch {
		case s[i] == '\\' && inq:
			i++
		case s[i] == '"':
			inq = !inq
		case inq:
		case s[i] == '(':
			d++
		case s[i] == ')':
			d--
		case s[i] == ',' && d == 0:
			out = append(out, s[start:i])
			start = i + 1
		}
	}
	return append(out, s[start:])
}

func nfIR(p *gram.Prod, e *gram.Expr) string {
	switch e.Op {
	case "lit":
		return "lit" + strconv.Quote(e.Text)
	case "ref":
		return "tok<" + strings.ToLower(e.Typ) + ">"
	case "sub":
		return "prod:" + p.Fields[e.Field].Target
	case "cap":
		return nfIR(p, e.Kids[0])
	case "neg":
		return "neg(" + nfIR(p, e.Kids[0]) + ")"
	case "look":
		if e.Negative {
			return "look!(" + nfIR(p, e.Kids[0]) + ")"
		}
		return "look=(" + nfIR(p, e.Kids[0]) + ")"
	case "grp":
		if e.Mode == "" {
			return nfIR(p, e.Kids[0])
		}
		return "rep" + e.Mode + "(" + nfIR(p, e.Kids[0]) + ")"
	case "seq", "alt":
		var kids []string
		for _, k := range e.Kids {
			kids = append(kids, nfIR(p, k))
		}
		return nfJoin(e.Op, kids)
	}
	return "?"
}

func nfEBNF(x *ebnf.Expression) string {
	var alts []string
	for _, sq := range x.Alternatives {
		var terms []string
		for _, t := range sq.Terms {
			var base string
			switch {
			case t.Name != "":
				base = "prod:" + t.Name
			case t.Literal != "":
				base = "lit" + t.Literal
			case t.Token != "":
				base = "tok<" + t.Token + ">"
			case t.Group != nil:
				inner := nfEBNF(t.Group.Expr)
				switch t.Group.Lookahead {
				case ebnf.LookaheadAssertionNegative:
					base = "look!(" + inner + ")"
				case ebnf.LookaheadAssertionPositive:
					base = "look=(" + inner + ")"
				default:
					base = inner
				}
			}
			if t.Negation {
				base = "neg(" + base + ")"
			}
			if t.Repetition != "" {
				base = "rep" + t.Repetition + "(" + base + ")"
			}
			terms = append(terms, base)
		}
		alts = append(alts, nfJoin("seq", terms))
	}
	return nfJoin("alt", alts)
}

func c14Child(c *mon.Child) {
	if c.Batch == 0 {
		c14Static(c)
	}
	for gi, h := range gram.Registry {
		key := h.ID
		if !c.Want(key) {
			continue
		}
		gp := buildAll(h, []int{1}, false)
		if gp.err != nil {
			c.Feature("grammars_not_built")
			continue
		}
		_ = gi
		g := gp.g
		c.Begin(key, trunc(g.String(), 500))
		c.Eval(1)
		what, class, shape := c14Check(g, gp.byK[1])
		if what != "" {
			c.Violation(class, key, what+" | grammar: "+trunc(g.String(), 700), map[string]interface{}{"grammar": g, "difference": what})
		}
		for k := range shape {
			c.Feature("grammars_using_" + k)
		}
		// shapes the four fixed strings of the suite do not include
		nested := false
		for _, p := range g.Prods {
			gram.Walk(p.Expr, func(e *gram.Expr) {
				if e.Op == "grp" && e.Mode != "" {
					k := e.Kids[0]
					for k.Op == "cap" || (k.Op == "grp" && k.Mode == "") {
						k = k.Kids[0]
					}
					if k.Op == "grp" && k.Mode != "" {
						nested = true
					}
				}
			})
		}
		if nested {
			c.Feature("grammars_with_a_modifier_applied_to_a_modified_group")
		}
		if len(shape) >= 3 || nested {
			c.Nontrivial(h.IR)
			c.Sample(map[string]interface{}{"grammar": trunc(g.String(), 400), "ebnf": trunc(gp.byK[1].String(), 400)})
		}
		c.End(key)
	}
}

func init() {
	Register(&mon.Spec{
		ID:          "C14",
		Rule:        "case = generated grammar of named productions (every operator, nesting, recursion, unions, typed literals, modifiers applied to modified groups, bracket forms). Parser.String() must not panic, must parse with ebnf.ParseString, start with the root, define every referenced production exactly once, and contain exactly the multiset of literals, token references, production references and operators (? * + ! ~ (?= (?!) of the reachable grammar; printing the parsed EBNF tree and parsing again must give an equal tree (print/parse fixpoint). Non-trivial: the grammar uses >=3 distinct operators or applies a modifier to a modified group. Distinct by grammar IR.",
		Assumptions: []string{"anonymous struct productions are outside the statement (named productions only)", "completeness is judged on multisets, not on tree shape"},
		Batches:     func(t string) int { return pick(t, 4, 16) },
		Floor:       func(t string) int { return pick(t, 100, 1200) },
		TimeoutSec:  func(t string) int { return pick(t, 300, 1800) },
		Prepare:     gramPrepare("C14", func(t string) int { return pick(t, 350, 900) }, c14Opts, nil, false),
		Child:       c14Child,
	})
}
