package props

import (
	"fmt"

	"github.com/alecthomas/participle/v2/lexer"

	"verifharness/lexgen"
	"verifharness/mon"
)

// realTok is a token of the real lexer with its rule name resolved.
type realTok struct {
	Name string
	Tok  lexer.Token
}

// realLex is what was observed from the real lexer, one Next at a time.
type realLex struct {
	Toks     []realTok
	EOF      *lexer.Token
	Err      error
	Panicked bool
	PanicVal string
	Stack    string
	Calls    int
}

func symNames(def lexer.Definition) map[lexer.TokenType]string {
	return lexer.SymbolsByRune(def)
}

// lexAll drives a lexer to EOF or error with every call under recover.
func lexAll(lx lexer.Lexer, names map[lexer.TokenType]string, limit int) *realLex {
	out := &realLex{}
	for {
		var t lexer.Token
		var err error
		p, v, st := mon.Guard(func() { t, err = lx.Next() })
		out.Calls++
		if p {
			out.Panicked, out.PanicVal, out.Stack = true, v, st
			return out
		}
		if err != nil {
			out.Err = err
			return out
		}
		if t.Type == lexer.EOF {
			tt := t
			out.EOF = &tt
			return out
		}
		out.Toks = append(out.Toks, realTok{Name: names[t.Type], Tok: t})
		if len(out.Toks) > limit {
			out.Err = fmt.Errorf("more tokens than the progress bound allows")
			return out
		}
	}
}

func errOffset(err error) (int, lexer.Position, bool) {
	type positioned interface{ Position() lexer.Position }
	if pe, ok := err.(positioned); ok {
		p := pe.Position()
		return p.Offset, p, true
	}
	return -1, lexer.Position{}, false
}

// buildDef constructs the real definition under recover.
func buildDef(g *lexgen.GMap) (def *lexer.StatefulDefinition, err error, panicked bool, pv string) {
	p, v, _ := mon.Guard(func() { def, err = lexer.New(g.ToLexer()) })
	return def, err, p, v
}

// lexInputs returns the input list for a map.
func lexInputs(r *mon.RNG, g *lexgen.GMap, n int) []string {
	out := []string{""}
	for i := 0; i < n; i++ {
		switch r.Intn(10) {
		case 0:
			out = append(out, lexgen.Soup(r, r.Range(1, 12)))
		case 1: // deep nesting pressure: long walk
			out = append(out, g.SampleInput(r, 60))
		default:
			out = append(out, g.SampleInput(r, 12))
		}
	}
	return out
}

func trunc(s string, n int) string {
	if len(s) > n {
		return s[:n] + "..."
	}
	return s
}
