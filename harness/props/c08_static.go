package props

import (
	"strings"

	"github.com/alecthomas/participle/v2"

	"verifharness/mon"
)

// The same Go types built twice with different Union member lists: whether a
// production is left-recursive depends on the options of that Build, not on
// what an earlier Build of the same types concluded.

type c08ValA interface{ isC08ValA() }
type c08LitA struct {
	V string `@Ident`
}
type c08PostA struct {
	L    c08ValA `@@`
	Bang string  `@"!"`
}
type c08RootA struct {
	P *c08PostA `  @@`
	N string    `| @Int`
}

func (c08LitA) isC08ValA()  {}
func (c08PostA) isC08ValA() {}

type c08ValB interface{ isC08ValB() }
type c08LitB struct {
	V string `@Ident`
}
type c08PostB struct {
	L    c08ValB `@@`
	Bang string  `@"!"`
}
type c08RootB struct {
	P *c08PostB `  @@`
	N string    `| @Int`
}

func (c08LitB) isC08ValB()  {}
func (c08PostB) isC08ValB() {}

func c08Static(c *mon.Child) {
	judge := func(key, desc string, err error, wantLR bool) {
		c.Eval(1)
		isLR := err != nil && strings.Contains(err.Error(), "left recursion")
		switch {
		case wantLR && !isLR:
			c.Violation("", key, "Build accepted (or rejected for another reason: "+errText(err)+") a grammar in which Post re-enters itself through the union before consuming a token | "+desc, nil)
		case !wantLR && err != nil:
			c.Violation("", key, "Build rejected a grammar without left recursion: "+err.Error()+" | "+desc, nil)
		}
		c.Nontrivial("static:" + desc)
	}
	key := "static-rebuild"
	if !c.Want(key) {
		return
	}
	c.Begin(key, "the same types built with different Union member lists, in both orders")
	var err error
	mon.Guard(func() { _, err = participle.Build[c08RootA](participle.Union[c08ValA](c08LitA{})) })
	judge(key, "first Build: Val = union(Lit); Post = Val \"!\"", err, false)
	err = nil
	mon.Guard(func() { _, err = participle.Build[c08RootA](participle.Union[c08ValA](c08LitA{}, c08PostA{})) })
	judge(key, "second Build of the same types: Val = union(Lit, Post); Post = Val \"!\"", err, true)
	err = nil
	mon.Guard(func() { _, err = participle.Build[c08RootB](participle.Union[c08ValB](c08LitB{}, c08PostB{})) })
	judge(key, "first Build: Val = union(Lit, Post); Post = Val \"!\"", err, true)
	err = nil
	mon.Guard(func() { _, err = participle.Build[c08RootB](participle.Union[c08ValB](c08LitB{})) })
	judge(key, "second Build of the same types: Val = union(Lit); Post = Val \"!\"", err, false)
	c.Feature("same_types_built_with_different_union_lists")
	c.End(key)
}

func errText(err error) string {
	if err == nil {
		return "<nil>"
	}
	return trunc(err.Error(), 200)
}
