package props

import (
	"encoding/json"
	"fmt"
	"reflect"

	"github.com/alecthomas/participle/v2/lexer"

	"verifharness/lexgen"
	"verifharness/mon"
)

// C16: lexer definitions survive JSON serialisation.

func c16Roundtrip(data []byte) (*lexer.StatefulDefinition, error) {
	rules := lexer.Rules{}
	if err := json.Unmarshal(data, &rules); err != nil {
		return nil, fmt.Errorf("unmarshal: %w", err)
	}
	var def *lexer.StatefulDefinition
	var err error
	p, pv, _ := mon.Guard(func() { def, err = lexer.New(rules) })
	if p {
		return nil, fmt.Errorf("lexer.New panicked on unmarshalled rules: %s", pv)
	}
	return def, err
}

func c16Same(a, b *realLex) string {
	if a.Panicked || b.Panicked {
		if a.Panicked != b.Panicked {
			return fmt.Sprintf("panic on one side only (original=%v copy=%v)", a.Panicked, b.Panicked)
		}
		return ""
	}
	if len(a.Toks) != len(b.Toks) {
		return fmt.Sprintf("%d tokens vs %d after the round trip", len(a.Toks), len(b.Toks))
	}
	for i := range a.Toks {
		if a.Toks[i].Name != b.Toks[i].Name || a.Toks[i].Tok != b.Toks[i].Tok {
			return fmt.Sprintf("token #%d: %s %#v vs %s %#v", i, a.Toks[i].Name, a.Toks[i].Tok, b.Toks[i].Name, b.Toks[i].Tok)
		}
	}
	if (a.Err == nil) != (b.Err == nil) {
		return fmt.Sprintf("error %v vs %v", a.Err, b.Err)
	}
	if a.Err != nil {
		ao, _, _ := errOffset(a.Err)
		bo, _, _ := errOffset(b.Err)
		if ao != bo {
			return fmt.Sprintf("error offset %d vs %d (%v / %v)", ao, bo, a.Err, b.Err)
		}
	}
	return ""
}

// c16Simple round-trips definitions made by NewSimple (the other constructor):
// the only way back from their JSON is lexer.New, which has to agree with
// NewSimple on every symbol - also when a rule name occurs twice.
func c16Simple(c *mon.Child) {
	cases := [][]lexer.SimpleRule{
		{{Name: "Ident", Pattern: `[a-z]+`}, {Name: "Op", Pattern: `[-+]`}, {Name: "Int", Pattern: `[0-9]+`}, {Name: "ws", Pattern: `\s+`}},
		{{Name: "Op", Pattern: `[-+]`}, {Name: "Ident", Pattern: `[a-z]+`}, {Name: "Op", Pattern: `[-+]`}, {Name: "Int", Pattern: `[0-9]+`}, {Name: "ws", Pattern: `\s+`}},
		{{Name: "A", Pattern: `a`}, {Name: "A", Pattern: `a`}, {Name: "A", Pattern: `a`}, {Name: "B", Pattern: `b`}, {Name: "C", Pattern: `[c-z ]`}},
		{{Name: "ws", Pattern: ` +`}, {Name: "X", Pattern: `x`}, {Name: "ws", Pattern: ` +`}, {Name: "Y", Pattern: `[a-z0-9+-]`}},
		{{Name: "Wörter", Pattern: `[a-zé]+`}, {Name: "", Pattern: `;`}, {Name: "Rest", Pattern: `(?s:.)`}},
	}
	inputs := []string{"ab + 12 - c", "a b c", "x  y+1", "", "é;z", "+-+", "aaa bbb"}
	for ci, rules := range cases {
		key := fmt.Sprintf("simple%d", ci)
		if !c.Want(key) {
			continue
		}
		c.Begin(key, fmt.Sprintf("NewSimple %v", rules))
		c.Eval(1)
		var def *lexer.StatefulDefinition
		var err error
		if p, pv, _ := mon.Guard(func() { def, err = lexer.NewSimple(rules) }); p {
			c.Violation("", key, fmt.Sprintf("NewSimple panicked: %s | rules %v", pv, rules), nil)
			c.End(key)
			continue
		}
		if err != nil {
			c.Feature("simple_definitions_rejected")
			c.End(key)
			continue
		}
		for _, how := range []string{"definition", "def.Rules()"} {
			var b []byte
			if how == "definition" {
				b, err = json.Marshal(def)
			} else {
				b, err = json.Marshal(def.Rules())
			}
			if err != nil {
				c.Violation("", key, fmt.Sprintf("json.Marshal(%s) of a NewSimple definition failed: %v", how, err), nil)
				continue
			}
			d2, err := c16Roundtrip(b)
			if err != nil {
				c.Violation("", key, fmt.Sprintf("JSON of a NewSimple definition (%s) does not build: %v | json: %s", how, err, trunc(string(b), 300)), nil)
				continue
			}
			if !reflect.DeepEqual(def.Symbols(), d2.Symbols()) {
				c.Violation("", key, fmt.Sprintf("symbol table of a NewSimple definition differs after the %s round trip: %v vs %v | rules %v", how, def.Symbols(), d2.Symbols(), rules), map[string]interface{}{"json": string(b)})
				continue
			}
			for _, in := range inputs {
				la, _ := def.LexString("s", in)
				lb, _ := d2.LexString("s", in)
				a, b2 := lexAll(la, symNames(def), len(in)+2), lexAll(lb, symNames(d2), len(in)+2)
				if d := c16Same(a, b2); d != "" {
					c.Violation("", key, fmt.Sprintf("NewSimple definition and its %s round trip lex %q differently: %s | rules %v", how, in, d, rules), nil)
					break
				}
			}
			c.Feature("simple_definitions_round_tripped")
		}
		c.Nontrivial(fmt.Sprintf("simple:%v", rules))
		c.End(key)
	}
}

func c16Child(c *mon.Child) {
	if c.Batch == 0 {
		c16Simple(c)
	}
	nMaps := c.N(200, 2500)
	nInputs := c.N(60, 200)
	for mi := 0; mi < nMaps; mi++ {
		r := c.RNG("map", mi)
		g := lexgen.GenMap(r, &lexgen.MapOpts{Backrefs: true, MaxStates: 6, Elide: true, Hostile: r.Chance(1, 5), OddNames: true})
		def, err, panicked, _ := buildDef(g)
		if panicked || err != nil {
			c.Feature("constructor_rejected")
			continue
		}
		key0 := fmt.Sprintf("m%d", mi)
		if c.Only != "" && !(len(c.Only) >= len(key0) && c.Only[:len(key0)] == key0) {
			continue
		}
		c.Begin(key0, trunc(g.String(), 400))
		type variant struct {
			name string
			def  *lexer.StatefulDefinition
		}
		var variants []variant
		detail := map[string]interface{}{"rules": g}
		// (1) the definition itself
		if b, err := json.Marshal(def); err != nil {
			c.Violation("", key0, "json.Marshal(definition) failed: "+err.Error()+" | "+trunc(g.String(), 500), detail)
		} else if d2, err := c16Roundtrip(b); err != nil {
			c.Violation("", key0, "definition JSON does not build: "+err.Error()+" | json: "+trunc(string(b), 400), detail)
		} else {
			variants = append(variants, variant{"definition", d2})
		}
		// (2) the rule set
		if b, err := json.Marshal(g.ToLexer()); err != nil {
			c.Violation("", key0, "json.Marshal(rules) failed: "+err.Error()+" | "+trunc(g.String(), 500), detail)
		} else if d2, err := c16Roundtrip(b); err != nil {
			c.Violation("", key0, "rules JSON does not build: "+err.Error()+" | json: "+trunc(string(b), 400), detail)
		} else {
			variants = append(variants, variant{"rules", d2})
		}
		// (3) def.Rules() (what the code generator consumes)
		if b, err := json.Marshal(def.Rules()); err != nil {
			c.Violation("", key0, "json.Marshal(def.Rules()) failed: "+err.Error(), detail)
		} else if d2, err := c16Roundtrip(b); err != nil {
			c.Violation("", key0, "def.Rules() JSON does not build: "+err.Error()+" | json: "+trunc(string(b), 400), detail)
		} else {
			variants = append(variants, variant{"def.Rules()", d2})
		}
		// def.Rules() must not hand out state shared with later calls: edit the first result, ask again
		if j1, err := json.Marshal(def.Rules()); err == nil {
			first := def.Rules()
			for st := range first {
				for i := range first[st] {
					first[st][i].Pattern = "EDITED"
					first[st][i].Name = "Edited"
				}
			}
			if j2, err := json.Marshal(def.Rules()); err != nil || string(j1) != string(j2) {
				c.Violation("", key0, fmt.Sprintf("def.Rules() JSON changed after a caller edited an earlier def.Rules() result: %s vs %s", trunc(string(j1), 300), trunc(string(j2), 300)), detail)
			}
			if j3, err := json.Marshal(def); err == nil {
				if d3, err := c16Roundtrip(j3); err != nil {
					c.Violation("", key0, "definition JSON does not build after a caller edited a def.Rules() result: "+err.Error(), detail)
				} else {
					variants = append(variants, variant{"definition-after-Rules()-edit", d3})
				}
			}
		}
		// a definition must not depend on the caller's rule map after New returned: build one from a map we keep,
		// edit the map, then serialise the definition
		if rs := g.ToLexer(); true {
			var def2 *lexer.StatefulDefinition
			var err2 error
			mon.Guard(func() { def2, err2 = lexer.New(rs) })
			if def2 != nil && err2 == nil {
				for st := range rs {
					for i := range rs[st] {
						rs[st][i].Pattern = "EDITED"
						rs[st][i].Name = "Edited"
					}
					rs[st] = append(rs[st], lexer.Rule{Name: "Added", Pattern: "added"})
				}
				rs["AddedState"] = []lexer.Rule{{Name: "X", Pattern: "x"}}
				if j4, err := json.Marshal(def2); err != nil {
					c.Violation("", key0, "json.Marshal(definition) failed after the caller edited the rule map it had passed to New: "+err.Error(), detail)
				} else if d4, err := c16Roundtrip(j4); err != nil {
					c.Violation("", key0, "definition JSON does not build after the caller edited the rule map it had passed to New: "+err.Error()+" | json: "+trunc(string(j4), 300), detail)
				} else {
					variants = append(variants, variant{"definition-after-the-caller-edited-its-rule-map", d4})
				}
			}
		}
		// def.MarshalJSON() called directly: the returned bytes must stay what they are while other definitions are marshalled
		if j5, err := def.MarshalJSON(); err == nil {
			before := string(j5)
			if other, err := lexer.New(lexer.Rules{"Root": {{Name: "Zz", Pattern: "zz+"}, {Name: "Yy", Pattern: "y", Action: lexer.Push("Root")}, {Name: "Xx", Pattern: "x", Action: lexer.Pop()}}}); err == nil {
				for k := 0; k < 3; k++ {
					def.MarshalJSON()
					other.MarshalJSON() // the last call marshals another definition
				}
			}
			if string(j5) != before {
				c.Violation("", key0, fmt.Sprintf("the bytes returned by def.MarshalJSON() changed while other definitions were marshalled: %s -> %s", trunc(before, 200), trunc(string(j5), 200)), detail)
			} else if d5, err := c16Roundtrip(j5); err != nil {
				c.Violation("", key0, "JSON from a direct def.MarshalJSON() call does not build: "+err.Error(), detail)
			} else {
				variants = append(variants, variant{"direct-MarshalJSON", d5})
			}
		}
		names := symNames(def)
		for _, v := range variants {
			if !reflect.DeepEqual(def.Symbols(), v.def.Symbols()) {
				c.Violation("", key0, fmt.Sprintf("symbol table differs after the %s round trip: %v vs %v | %s", v.name, def.Symbols(), v.def.Symbols(), trunc(g.String(), 500)), detail)
			}
		}
		actions := map[string]bool{}
		for _, rs := range g.Rules {
			for _, ru := range rs {
				if ru.Action != "" {
					actions[ru.Action] = true
				}
			}
		}
		inputs := lexInputs(r.Fork("inputs"), g, nInputs)
		for ii, in := range inputs {
			key := fmt.Sprintf("m%d.i%d", mi, ii)
			if !c.Want(key) && c.Only != key0 {
				continue
			}
			c.Eval(1)
			lx, _ := def.LexString("f", in)
			a := lexAll(lx, names, len(in)+2)
			for _, v := range variants {
				lx2, _ := v.def.LexString("f", in)
				b := lexAll(lx2, symNames(v.def), len(in)+2)
				if d := c16Same(a, b); d != "" {
					c.Violation("", key, fmt.Sprintf("%s round trip changes lexing: %s | rules: %s | input: %q", v.name, d, trunc(g.String(), 500), in),
						map[string]interface{}{"rules": g, "input": in, "difference": d, "variant": v.name})
				}
			}
			if len(actions) >= 2 && len(a.Toks) >= 2 {
				c.Nontrivial(g.String() + "\x00" + in)
				if ii == 3 {
					c.Sample(map[string]interface{}{"rules": trunc(g.String(), 300), "input": in, "tokens": len(a.Toks), "variants": len(variants)})
				}
			}
		}
		for a := range actions {
			c.Feature("maps_with_action_" + a)
		}
		c.Feature("maps_round_tripped")
		c.End(key0)
	}
}

func init() {
	Register(&mon.Spec{
		ID:          "C16",
		Rule:        "case = (generated rule map with every action kind, nested includes, Return, patterns with quotes/backslashes/non-ASCII; input). json.Marshal of the definition, of the rule set and of def.Rules() is unmarshalled into lexer.Rules and built with lexer.New; Symbols() must be equal and the token stream / error offset on the input identical to the original definition's. Non-trivial: map uses >=2 action kinds and the input yields >=2 tokens. Distinct by (rule map, input).",
		Assumptions: []string{"behavioural equality is judged on the sampled inputs only"},
		Batches:     func(t string) int { return pick(t, 4, 16) },
		Floor:       func(t string) int { return pick(t, 300, 5000) },
		TimeoutSec:  func(t string) int { return pick(t, 120, 3000) },
		Child:       c16Child,
	})
}
