package props

import (
	"fmt"
	"strings"

	"github.com/alecthomas/participle/v2/lexer"

	"verifharness/gram"
	"verifharness/mon"
)

// C13: more lookahead never changes a successful parse (purely metamorphic).

func c13Opts(r *mon.RNG, i int) *gram.GenOpts {
	prof := []int{gram.ProfStateful, gram.ProfDefault, gram.ProfLower}[i%3]
	return &gram.GenOpts{Profile: prof, MaxProds: 5, Budget: 14 + r.Intn(14) + (i/90)*6, Depth: 2 + r.Intn(3) + i/150, TokKinds: i%4 == 0, Unions: true,
		SharePrefix: 8, CaptureBias: 5, SubBias: 4 + 3*(i%2), AllowBang: true, NoNegLook: true, MoreUnions: i%2 == 1, CatchAll: 5}
}

func c13Child(c *mon.Child) {
	if c.Batch == 0 {
		c13Nested(c)
		c13LongLookahead(c)
	}
	nInputs := c.N(150, 300)
	for gi, h := range gram.Registry {
		gp := buildAll(h, allKs, gi%3 == 1)
		if gp.err != nil {
			c.Feature("grammars_not_built")
			continue
		}
		g := gp.g
		if g.UsesOp("neg") || g.UsesOp("look") {
			continue
		}
		c.Feature("grammars_built")
		r := c.RNG("inputs", h.ID)
		smp := gram.NewSampler(g, r)
		inputs := append(featInputs(g), smp.Inputs(nInputs)...)
		if c.Thorough() && gi%4 == 0 {
			smp.Exhaustive(4, 5, func(t []string) { inputs = append(inputs, append([]string{}, t...)) })
			c.Feature("grammars_with_exhaustive_short_inputs")
		}
		gdesc := trunc(g.String(), 900)
		for ii, toks := range inputs {
			key := fmt.Sprintf("%s.i%d", h.ID, ii)
			if !c.Want(key) {
				continue
			}
			text := gram.Render(g.Profile, toks, ii%4, r.Fork("render", ii))
			c.Begin(key, fmt.Sprintf("%s <- %q", trunc(gdesc, 300), text))
			var T0 []lexer.Token
			mon.Guard(func() { T0, _ = gp.byK[0].Lex("", strings.NewReader(text)) })
			if T0 == nil || !affordable(c, gp, T0) {
				c.End(key)
				continue
			}
			type outcome struct {
				ok    bool
				canon string
				err   string
				bad   bool
			}
			outs := make([]outcome, len(allKs))
			for i, k := range allKs {
				c.Eval(1)
				rr := realParse(func() (interface{}, error) { return gp.byK[k].ParseString("f", text) })
				if rr.Panicked {
					// totality is C06's business; a panic makes this configuration undecidable here
					outs[i].bad = true
					c.Feature("parse_panicked_(see_C06)")
					continue
				}
				if rr.Err == nil {
					outs[i] = outcome{ok: true, canon: rr.AST.Canon(true)}
				} else {
					outs[i].err = rr.Err.Error()
				}
			}
			firstOK := -1
			turned := false
			for i := range allKs {
				if outs[i].bad {
					continue
				}
				if outs[i].ok && firstOK < 0 {
					firstOK = i
					if i > 0 {
						turned = true
					}
				}
				if firstOK >= 0 && i > firstOK {
					what := ""
					if !outs[i].ok {
						what = fmt.Sprintf("parses with lookahead=%s but fails with the larger lookahead=%s (%s)", kName(allKs[firstOK]), kName(allKs[i]), outs[i].err)
					} else if outs[i].canon != outs[firstOK].canon {
						what = fmt.Sprintf("AST under lookahead=%s differs from AST under lookahead=%s: %s vs %s", kName(allKs[firstOK]), kName(allKs[i]), trunc(outs[firstOK].canon, 300), trunc(outs[i].canon, 300))
					}
					if what != "" {
						c.Violation("", key, fmt.Sprintf("%s | grammar: %s | input: %q", what, gdesc, text),
							map[string]interface{}{"grammar": g, "input": text, "difference": what})
						break
					}
				}
			}
			// coverage from the reference trace (not part of the verdict)
			var T []lexer.Token
			mon.Guard(func() { T, _ = gp.byK[0].Lex("", strings.NewReader(text)) })
			if T != nil && firstOK >= 0 {
				env := gram.NewEnv(g, T, gp.sym, gp.elided, gp.ci, allKs[firstOK], false)
				env.Run()
				if !env.Over && (env.Tr.Abandoned > 0 || turned) {
					c.Nontrivial(h.IR + "\x00" + strings.Join(toks, " "))
					if turned {
						c.Feature("inputs_where_more_lookahead_turned_failure_into_success")
						c.Feature("first_successful_lookahead=" + kName(allKs[firstOK]))
					}
					c.FeatureN("ref_attempts_abandoned_at_first_successful_k", int64(env.Tr.Abandoned))
					for d, v := range env.Tr.Delta {
						c.FeatureN(fmt.Sprintf("ref_decisions_at_consumed_minus_k=%+d", d), int64(v))
					}
					if ii%23 == 0 {
						c.Sample(map[string]interface{}{"grammar": gdesc, "input": text, "first_successful_lookahead": kName(allKs[firstOK]), "abandoned": env.Tr.Abandoned})
					}
				}
			}
			c.End(key)
		}
	}
}

func init() {
	Register(&mon.Spec{
		ID:          "C13",
		Rule:        "case = (generated grammar without ~ and lookahead groups, token string): the same text is parsed by parsers built with lookahead 0,1,2,3,5,8,50,MaxLookahead,unlimited; once some k succeeds every larger k must succeed with an identical AST (all fields, positions and token lists). Non-trivial: the parse succeeded for some k and either a smaller k failed or the reference trace at the first successful k abandoned an attempt. Distinct by (grammar IR, token string).",
		Assumptions: []string{"the verdict is purely metamorphic (no reference semantics involved); the reference trace only supplies coverage counts"},
		Batches:     func(t string) int { return pick(t, 4, 16) },
		Floor:       func(t string) int { return pick(t, 400, 8000) },
		TimeoutSec:  func(t string) int { return pick(t, 300, 3600) },
		Prepare:     gramPrepare("C13", func(t string) int { return pick(t, 90, 220) }, c13Opts, nil, false),
		Child:       c13Child,
	})
}
