package props

import (
	"fmt"

	"verifharness/lexgen"
	"verifharness/mon"
)

// C03: the stateful lexer emits exactly the tokens its rules define.

func c03Compare(ref *lexgen.RefResult, real *realLex, input string) (diff string, class string) {
	n := len(ref.Toks)
	for i, rt := range real.Toks {
		if i >= n {
			if ref.Undefined {
				return "", ""
			}
			if ref.ErrOffset >= 0 {
				return fmt.Sprintf("real lexer emitted token #%d %s %q at offset %d where the rules define an error at offset %d (%s)", i, rt.Name, rt.Tok.Value, rt.Tok.Pos.Offset, ref.ErrOffset, ref.ErrWhy), ""
			}
			return fmt.Sprintf("real lexer emitted extra token #%d %s %q at offset %d; the rules define EOF", i, rt.Name, rt.Tok.Value, rt.Tok.Pos.Offset), ""
		}
		w := ref.Toks[i]
		if rt.Name != w.Name || rt.Tok.Value != w.Text || rt.Tok.Pos.Offset != w.Offset {
			return fmt.Sprintf("token #%d: real %s %q @%d, rules define %s %q @%d", i, rt.Name, rt.Tok.Value, rt.Tok.Pos.Offset, w.Name, w.Text, w.Offset), ""
		}
	}
	if real.Panicked {
		if ref.Undefined {
			return "", ""
		}
		return fmt.Sprintf("real lexer panicked (%s) after %d tokens; the rules define a result", real.PanicVal, len(real.Toks)), "panic"
	}
	if len(real.Toks) < n {
		w := ref.Toks[len(real.Toks)]
		if real.Err != nil {
			return fmt.Sprintf("real lexer stopped with %q after %d tokens; the rules define token %s %q @%d next", real.Err.Error(), len(real.Toks), w.Name, w.Text, w.Offset), ""
		}
		return fmt.Sprintf("real lexer reported EOF after %d tokens; the rules define token %s %q @%d next", len(real.Toks), w.Name, w.Text, w.Offset), ""
	}
	if ref.Undefined {
		return "", ""
	}
	if ref.ErrOffset >= 0 {
		if real.Err == nil {
			return fmt.Sprintf("real lexer reported EOF; the rules define an error at offset %d (%s)", ref.ErrOffset, ref.ErrWhy), ""
		}
		off, pos, ok := errOffset(real.Err)
		if !ok {
			return fmt.Sprintf("error %q carries no position", real.Err.Error()), ""
		}
		if off != ref.ErrOffset {
			return fmt.Sprintf("error position: real offset %d, rules define %d (%s); real error %q", off, ref.ErrOffset, ref.ErrWhy, real.Err.Error()), ""
		}
		l, c := lexgen.LineCol(input, off)
		if pos.Line != l || pos.Column != c {
			return fmt.Sprintf("error at offset %d reported as %d:%d, should be %d:%d", off, pos.Line, pos.Column, l, c), ""
		}
		return "", ""
	}
	if real.Err != nil {
		return fmt.Sprintf("real lexer stopped with %q; the rules define EOF after %d tokens", real.Err.Error(), n), ""
	}
	return "", ""
}

func c03Child(c *mon.Child) {
	nMaps := c.N(200, 2500)
	nInputs := c.N(100, 300)
	for mi := 0; mi < nMaps; mi++ {
		r := c.RNG("map", mi)
		o := &lexgen.MapOpts{Backrefs: true, MaxStates: 6, Elide: true, Hostile: r.Chance(1, 4), Plain: r.Chance(1, 4), OddNames: true}
		g := lexgen.GenMap(r, o)
		def, err, panicked, pv := buildDef(g)
		if panicked {
			c.Feature("constructor_panicked")
			c.Note("constructor_panic", pv+" on "+trunc(g.String(), 400))
			continue
		}
		if err != nil {
			c.Feature("constructor_rejected")
			continue
		}
		c.Feature("maps_accepted")
		names := symNames(def)
		inputs := lexInputs(r.Fork("inputs"), g, nInputs)
		// lexers of one definition do not share state: two of them advanced alternately
		for k := 0; k+1 < len(inputs) && k < 12; k += 2 {
			if len(inputs[k]) > 3000 || len(inputs[k+1]) > 3000 {
				continue
			}
			key := fmt.Sprintf("m%d.pair%d", mi, k)
			if !c.Want(key) {
				continue
			}
			c.Begin(key, fmt.Sprintf("%s <- interleaved %q / %q", trunc(g.String(), 300), trunc(inputs[k], 100), trunc(inputs[k+1], 100)))
			lexInterleave(c, key, "runtime", def, names, inputs[k], inputs[k+1], trunc(g.String(), 600))
			c.Feature("pairs_of_lexers_advanced_alternately")
			c.End(key)
		}
		for ii, in := range inputs {
			key := fmt.Sprintf("m%d.i%d", mi, ii)
			if !c.Want(key) {
				continue
			}
			c.Begin(key, fmt.Sprintf("%s <- %q", trunc(g.String(), 300), in))
			c.Eval(1)
			ref := lexgen.RefLex(g, in)
			lx, lerr := def.LexString("f", in)
			if lerr != nil {
				c.Violation("", key, "LexString returned an error: "+lerr.Error(), nil)
				c.End(key)
				continue
			}
			real := lexAll(lx, names, len(in)+2)
			diff, cls := c03Compare(ref, real, in)
			if diff != "" {
				class := ""
				if ref.EvenBackslash {
					class = "backref-even-backslash-run"
				} else if cls == "panic" {
					class = c07PanicClass(real.Stack, real.PanicVal)
				}
				c.Violation(class, key, diff+" | rules: "+trunc(g.String(), 600)+fmt.Sprintf(" | input: %q", in),
					map[string]interface{}{"rules": g, "input": in, "difference": diff, "stack": real.Stack})
			}
			if ref.Undefined {
				c.Unspecified("pop-or-return-on-initial-state")
			}
			// non-triviality
			feat := 0
			if ref.OrderDecided > 0 {
				feat++
				c.Feature("inputs_where_rule_order_decided")
			}
			if ref.LongerLater > 0 {
				c.Feature("inputs_where_a_later_rule_matched_longer")
			}
			if ref.IncludedRule > 0 {
				feat++
				c.Feature("inputs_with_included_rule_chosen")
			}
			if ref.MaxDepth >= 3 {
				feat++
				c.Feature("inputs_with_stack_depth_ge3")
			}
			c.FeatureMax("max:stack_depth", int64(ref.MaxDepth))
			if ref.Returns > 0 {
				feat++
				c.Feature("inputs_with_return_taken")
			}
			if ref.BackrefUses > 0 {
				c.Feature("inputs_with_backref_match")
			}
			if ref.BackrefMeta > 0 {
				feat++
				c.Feature("inputs_with_backref_of_metacharacters")
			}
			if ref.ElidedTokens > 0 {
				feat++
				c.Feature("inputs_with_elided_rule_match")
			}
			if ref.AnchorAtOff > 0 {
				feat++
				c.Feature("inputs_consulting_anchor_rule_at_offset_gt0")
			}
			if ref.ErrOffset >= 0 {
				c.Feature("inputs_ending_in_defined_error")
			}
			if feat >= 2 {
				c.Nontrivial(g.String() + "\x00" + in)
				c.Sample(map[string]interface{}{"rules": g.String(), "input": in, "tokens": len(ref.Toks), "error_offset": ref.ErrOffset})
			}
			c.End(key)
		}
	}
}

func init() {
	Register(&mon.Spec{
		ID:   "C03",
		Rule: "case = (generated rule map accepted by lexer.New, input sampled by walking the map's state machine then damaged). The real token stream (rule name via Symbols, text, offset) or error position is compared with an independent reference lexer. Non-trivial: the input exercises >=2 of {rule order decided between overlapping rules, an include-spliced rule chosen, stack depth>=3, Return taken, back-reference to text with regex metacharacters, elided rule matched, anchor/word-boundary rule consulted at offset>0}. Distinct by (rule map, input).",
		Assumptions: []string{
			"trusted base: Go's regexp and regexp.QuoteMeta, used by both sides",
			"inputs that Pop/Return with only the initial state on the stack are outside what the property defines: compared up to that point, counted as unspecified (C07 owns totality there)",
			"rule order between an invalid back-reference rule and a later matching rule follows declaration order",
		},
		Batches:    func(t string) int { return pick(t, 4, 16) },
		Floor:      func(t string) int { return pick(t, 300, 5000) },
		TimeoutSec: func(t string) int { return pick(t, 120, 3000) },
		Child:      c03Child,
	})
}
