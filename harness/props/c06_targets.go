package props

import (
	"errors"
	"fmt"
	"reflect"
	"strings"

	"github.com/alecthomas/participle/v2"
	"github.com/alecthomas/participle/v2/lexer"

	"verifharness/gram"
	"verifharness/mon"
)

// Capture targets for C06: user types implementing Capture or
// encoding.TextUnmarshaler (pointer and value receivers) used as field,
// pointer, slice and slice of pointers, captured once, optionally, repeatedly
// and as a multi-token run. Whatever Build accepts must parse without
// panicking and fail only with well-formed errors.

type c06TP struct{ V string } // TextUnmarshaler, pointer receiver
func (t *c06TP) UnmarshalText(b []byte) error {
	if string(b) == "bad" {
		return errors.New("bad text")
	}
	t.V += string(b)
	return nil
}

type c06TV string                            // TextUnmarshaler, value receiver (cannot store)
func (t c06TV) UnmarshalText(b []byte) error { return nil }

type c06CP struct{ V []string } // Capture, pointer receiver
func (t *c06CP) Capture(v []string) error {
	for _, s := range v {
		if s == "bad" {
			return errors.New("bad capture")
		}
	}
	t.V = append(t.V, v...)
	return nil
}

type c06CV string                        // Capture, value receiver
func (t c06CV) Capture(v []string) error { return nil }

type c06NI int64 // named numeric
type c06NB bool
type c06NS string

type c06T1 struct {
	A c06TP `@Ident`
}
type c06T2 struct {
	A *c06TP `@Ident?`
	B string `@Int?`
}
type c06T3 struct {
	A []c06TP `@Ident*`
}
type c06T4 struct {
	A []*c06TP `@Ident*`
}
type c06T5 struct {
	A []c06TP `@(Ident Ident)*`
	B []c06TP `@Int*`
}
type c06T6 struct {
	A c06TV   `@Ident`
	B []c06TV `@Ident*`
}
type c06T7 struct {
	A c06CP `@Ident`
	B c06CP `@(Ident Int)*`
}
type c06T8 struct {
	A *c06CP  `@Ident?`
	B []c06CP `@Ident*`
}
type c06T9 struct {
	A []*c06CP `@Ident*`
	B []*c06CP `@(Int Int)?`
}
type c06T10 struct {
	A c06CV    `@Ident`
	B []c06CV  `@Ident*`
	C *c06CV   `@Int?`
	D []*c06CV `@Int*`
}
type c06T11 struct {
	A []*int     `@Int*`
	B []*string  `@Ident*`
	C *int       `@Int?`
	D []*float64 `( "f" @Float )*`
}
type c06T12 struct {
	A c06NI   `@Int`
	B []c06NI `@Int*`
	C *c06NB  `@"t"?`
	D []c06NB `@"u"*`
	E []c06NS `@Ident*`
	F *c06NS  `@String?`
}
type c06T13 struct {
	A **c06TP `@Ident`
}
type c06T14 struct {
	A [][]c06TP `@Ident*`
}
type c06T15 struct {
	A []c06TP `( @Ident "," )* @Ident?`
	B *c06TP  `( ";" @Ident )?`
}
type c06T16 struct {
	A map[string]c06TP `@Ident`
}

type c06T17 struct { // slice type that is its own element type
	A c19SelfSlice `@Ident*`
}
type c06T18 struct { // pointer type that points to itself
	A c19SelfPtr `@Ident?`
	B string     `@Int`
}

// Left recursion hidden behind productions that can match nothing only through a child visited later:
// Build is expected to reject these; if it ever accepts one, parsing must still not recurse without end.
type c06LRSign struct {
	Neg bool `@"-"?`
}
type c06LRPrefix struct {
	S c06LRSign `@@`
}
type c06LRExpr struct {
	P    c06LRPrefix `@@`
	Rec  *c06LRExpr  `( @@ "+" )?`
	Name string      `@Ident`
}

func c06B[T any]() func() (gram.Built, error) {
	return func() (gram.Built, error) {
		p, err := participle.Build[T]()
		if err != nil {
			return nil, err
		}
		return gram.WrapParser(p), nil
	}
}

var c06TargetCases = []struct {
	desc  string
	build func() (gram.Built, error)
}{
	{"TextUnmarshaler (pointer receiver) field", c06B[c06T1]()},
	{"pointer to TextUnmarshaler, optional", c06B[c06T2]()},
	{"slice of TextUnmarshaler (pointer receiver) values", c06B[c06T3]()},
	{"slice of pointers to TextUnmarshaler", c06B[c06T4]()},
	{"slice of TextUnmarshaler, multi-token captures", c06B[c06T5]()},
	{"TextUnmarshaler with a value receiver, field and slice", c06B[c06T6]()},
	{"Capture (pointer receiver) field, single and multi-token", c06B[c06T7]()},
	{"pointer to Capture and slice of Capture values", c06B[c06T8]()},
	{"slice of pointers to Capture", c06B[c06T9]()},
	{"Capture with a value receiver as field, slice, pointer, slice of pointers", c06B[c06T10]()},
	{"slices of pointers to basic types", c06B[c06T11]()},
	{"named numeric, bool and string types as field, slice, pointer", c06B[c06T12]()},
	{"pointer to pointer to TextUnmarshaler", c06B[c06T13]()},
	{"slice of slices of TextUnmarshaler", c06B[c06T14]()},
	{"TextUnmarshaler slice filled across a repetition and an optional pointer", c06B[c06T15]()},
	{"map of TextUnmarshaler", c06B[c06T16]()},
	{"left recursion behind a production that is nullable only through a later child (Build should reject)", c06B[c06LRExpr]()},
	{"slice type whose element type is itself", c06B[c06T17]()},
	{"pointer type that points to itself", c06B[c06T18]()},
}

func c06Targets(c *mon.Child) {
	inputs := []string{"", "a", "a b", "a b c d", "1", "1 2", "a 1", "a 1 b 2", "a + b", "- a + b", "bad", "a bad", "a b bad", "t", "t u u", `"s"`, "a, b, c", "a, b ; c", "; c", "f 1.5 f 2.5", "1 a", "a a 1 1", "99999999999999999999", "a b 1 x \"s\" t"}
	for i, tc := range c06TargetCases {
		key := fmt.Sprintf("target%d", i)
		if !c.Want(key) {
			continue
		}
		c.Begin(key, "capture-target case: "+tc.desc)
		var b gram.Built
		var err error
		if pn, pv, st := mon.Guard(func() { b, err = tc.build() }); pn {
			c.Violation("", key, "Build panicked ("+tc.desc+"): "+pv+" at "+st, nil)
			c.End(key)
			continue
		}
		if err != nil || b == nil {
			c.Feature("capture_target_shapes_rejected_by_Build")
			c.End(key)
			continue
		}
		c.Feature("capture_target_shapes_built")
		for _, in := range inputs {
			in := in
			c06One(c, key, b, "grammar with "+tc.desc, in, "t.txt", false, func() interface{} { return map[string]interface{}{"case": tc.desc, "input": in} })
		}
		c.Nontrivial("target:" + tc.desc)
		c.End(key)
	}
}

// c06StructOfTargets: every field type made of a base type under up to two
// pointer/slice wrappers, captured by several expressions. Build may reject
// the combination; what it accepts must parse without panicking.
func c06StructOfTargets(c *mon.Child) {
	bases := []reflect.Type{
		reflect.TypeOf(""), reflect.TypeOf(0), reflect.TypeOf(int8(0)), reflect.TypeOf(uint16(0)), reflect.TypeOf(float32(0)), reflect.TypeOf(1.5), reflect.TypeOf(false),
		reflect.TypeOf(complex64(0)), reflect.TypeOf(uintptr(0)), reflect.TypeOf((*interface{})(nil)).Elem(), reflect.TypeOf((*error)(nil)).Elem(),
		reflect.TypeOf(lexer.Token{}), reflect.TypeOf(lexer.Position{}), reflect.TypeOf(struct {
			X string `@Ident`
		}{}),
		reflect.TypeOf(c06TP{}), reflect.TypeOf(c06CP{}), reflect.TypeOf(c06CV("")), reflect.TypeOf(c06TV("")), reflect.TypeOf(c06NI(0)), reflect.TypeOf(c06NB(false)),
		reflect.TypeOf(map[string]string{}), reflect.TypeOf(make(chan int)), reflect.TypeOf(func() {}), reflect.TypeOf([2]string{}), reflect.TypeOf(byte(0)), reflect.TypeOf(rune(0)), reflect.TypeOf(struct{}{}),
	}
	wrappers := []struct {
		name string
		f    func(reflect.Type) reflect.Type
	}{
		{"T", func(t reflect.Type) reflect.Type { return t }},
		{"*T", reflect.PtrTo},
		{"[]T", reflect.SliceOf},
		{"[]*T", func(t reflect.Type) reflect.Type { return reflect.SliceOf(reflect.PtrTo(t)) }},
		{"[][]T", func(t reflect.Type) reflect.Type { return reflect.SliceOf(reflect.SliceOf(t)) }},
		{"**T", func(t reflect.Type) reflect.Type { return reflect.PtrTo(reflect.PtrTo(t)) }},
		{"*[]T", func(t reflect.Type) reflect.Type { return reflect.PtrTo(reflect.SliceOf(t)) }},
		{"[]**T", func(t reflect.Type) reflect.Type { return reflect.SliceOf(reflect.PtrTo(reflect.PtrTo(t))) }},
	}
	tags := []string{"@Ident", "@Ident*", "@(Ident Int)", "@Int?", "@Int*", "@@", "@@*", `@"a"`, `( @Ident "," )* @Int?`, "@(Ident | Int | String)*"}
	inputs := []string{"", "a", `"s"`, `a "s"`, `a b "s"`, `1 "s"`, `1 2 "s"`, `a 1 "s"`, `a, b, 1 "s"`, `a, "s"`, `"s" a 1`, `bad "s"`, `300 "s"`, `-1 "s"`, `1.5 "s"`, `"x" "s"`, `a 1 "x" b "s"`}
	n := 0
	for bi, base := range bases {
		for _, w := range wrappers {
			ft := w.f(base)
			for ti, tag := range tags {
				key := fmt.Sprintf("sot%d_%s_%d", bi, w.name, ti)
				if !c.Want(key) {
					continue
				}
				desc := fmt.Sprintf("struct { A %v `%s`; B string `@String` }", ft, tag)
				c.Begin(key, "capture-target type: "+desc)
				st := reflect.StructOf([]reflect.StructField{{Name: "A", Type: ft, Tag: reflect.StructTag(tag)}, {Name: "B", Type: reflect.TypeOf(""), Tag: "@String"}})
				zero := reflect.New(st).Elem().Interface()
				var p *participle.Parser[any]
				var err error
				if pn, pv, stk := mon.Guard(func() { p, err = participle.Build[any](participle.Union[any](zero)) }); pn {
					c.Violation(c07PanicClass(stk, pv), key, "Build panicked ("+pv+") at "+stk+" | "+desc, nil)
					c.End(key)
					continue
				}
				if err != nil || p == nil {
					c.Feature("capture_target_types_rejected_by_Build")
					c.End(key)
					continue
				}
				c.Feature("capture_target_types_built")
				n++
				b := gram.WrapParser(p)
				for _, in := range inputs {
					in := in
					c06One(c, key, b, desc, in, "t.txt", false, func() interface{} { return map[string]interface{}{"struct": desc, "input": in} })
				}
				c.Nontrivial("sot:" + desc)
				c.End(key)
			}
		}
	}
	c.FeatureN("capture_target_types_parsed", int64(n))
}

// c06ActionG: a lexer whose actions can fail on some inputs (Pop with nothing
// to pop, reached through an Include of the nested state's rules; Push is fine,
// Return() at the initial state): the failure must come back as a located error.
type c06ActionG struct {
	Items []string `( @Ident | @Open | @Close | @String | @End | @Char | @Ret )*`
}

var c06ActionLexer = lexer.MustStateful(lexer.Rules{
	"Root": {
		{Name: "String", Pattern: `"`, Action: lexer.Push("Str")},
		{Name: "Open", Pattern: `\{`, Action: lexer.Push("Block")},
		lexer.Include("Common"),
	},
	"Common": {
		{Name: "Close", Pattern: `\}`, Action: lexer.Pop()},
		{Name: "Ident", Pattern: `[a-zé世]+`},
		{Name: "ws", Pattern: `[ \t\r\n]+`},
	},
	"Block": {
		{Name: "Ret", Pattern: `;`},
		lexer.Include("Root"),
	},
	"Str": {
		{Name: "End", Pattern: `"`, Action: lexer.Pop()},
		{Name: "Char", Pattern: `[^"]+`},
	},
})

func c06ActionErrors(c *mon.Child) {
	p, err := participle.Build[c06ActionG](participle.Lexer(c06ActionLexer))
	if err != nil {
		c.Violation("", "action", "action-error grammar does not build: "+err.Error(), nil)
		return
	}
	pieces := []string{"a", "é世", "{", "}", "}", `"x y"`, `"`, ";", "\n", " ", "{ a }", "{ { b } }", "\r\n"}
	r := c.RNG("action")
	for i := 0; i < c.N(1500, 15000); i++ {
		key := fmt.Sprintf("act%d", i)
		if !c.Want(key) {
			continue
		}
		var in string
		for k := r.Range(1, 9); k > 0; k-- {
			in += pieces[r.Intn(len(pieces))] + r.Pick(" ", "", "\n")
		}
		c.Begin(key, fmt.Sprintf("grammar over a lexer with fallible actions <- %q", in))
		c06One(c, key, gram.WrapParser(p), "grammar over a stateful lexer whose Pop rule is reachable with nothing to pop", in, []string{"a.txt", ""}[i%2], false, func() interface{} { return map[string]interface{}{"input": in} })
		var lexErr error
		mon.Guard(func() { _, lexErr = p.Lex("", strings.NewReader(in)) })
		if lexErr != nil && strings.Contains(lexErr.Error(), "pop") {
			c.Feature("errors_from_failing_lexer_actions")
			c.Nontrivial("act:" + in)
		}
		c.End(key)
	}
}

// c06EmptyG: lexers with a rule that can match the empty string (a lexer-elided
// `\s*`, an upper-case `[0-9]*`), placed last: on a character nothing matches
// the lexer must stop with a located error, not spin or panic.
type c06EmptyG struct {
	Items []string `( @Ident | @Punct | @Num )*`
}

func c06EmptyMatches(c *mon.Child) {
	defs := []struct {
		desc  string
		rules []lexer.SimpleRule
	}{
		{"elided rule `\\s*` last", []lexer.SimpleRule{{Name: "Ident", Pattern: `[a-z]+`}, {Name: "Punct", Pattern: `[;,]`}, {Name: "Num", Pattern: `[0-9]+`}, {Name: "ws", Pattern: `\s*`}}},
		{"elided rule `\\s*` first", []lexer.SimpleRule{{Name: "ws", Pattern: `\s*`}, {Name: "Ident", Pattern: `[a-z]+`}, {Name: "Punct", Pattern: `[;,]`}, {Name: "Num", Pattern: `[0-9]+`}}},
		{"ordinary rule `[0-9]*` last", []lexer.SimpleRule{{Name: "Ident", Pattern: `[a-z]+`}, {Name: "Punct", Pattern: `[;,]`}, {Name: "ws", Pattern: `\s+`}, {Name: "Num", Pattern: `[0-9]*`}}},
		{"elided rule `(?:#[^\\n]*)?` in the middle", []lexer.SimpleRule{{Name: "Ident", Pattern: `[a-z]+`}, {Name: "comment", Pattern: `(?:#[^\n]*)?`}, {Name: "Punct", Pattern: `[;,]`}, {Name: "Num", Pattern: `[0-9]+`}, {Name: "ws", Pattern: `\s+`}}},
	}
	pieces := []string{"a", "bc", ";", ",", "7", " ", "\n", "$", "é", "# c\n", "A"}
	r := c.RNG("emptymatch")
	for di, d := range defs {
		def, err := lexer.NewSimple(d.rules)
		if err != nil {
			c.Feature("definitions_with_empty_matching_rule_rejected_by_the_constructor")
			continue
		}
		p, err := participle.Build[c06EmptyG](participle.Lexer(def))
		if err != nil {
			c.Feature("definitions_with_empty_matching_rule_rejected_by_Build")
			continue
		}
		for i := 0; i < c.N(150, 1500); i++ {
			key := fmt.Sprintf("empty%d_%d", di, i)
			if !c.Want(key) {
				continue
			}
			var in string
			for k := r.Range(1, 7); k > 0; k-- {
				in += pieces[r.Intn(len(pieces))]
			}
			c.Begin(key, fmt.Sprintf("lexer with %s <- %q", d.desc, in))
			c06One(c, key, gram.WrapParser(p), "grammar over a lexer with "+d.desc, in, "e.txt", false, func() interface{} { return map[string]interface{}{"lexer": d.desc, "input": in} })
			if strings.ContainsAny(in, "$éA") {
				c.Nontrivial("empty:" + d.desc + in)
				c.Feature("inputs_with_a_character_only_an_empty_match_can_follow")
			}
			c.End(key)
		}
	}
}

// c06HereG: a grammar over the heredoc lexer (back-references; the Bare rule enters the
// heredoc state without the group \1 needs, so the expansion fails every time it is reached).
// c06One sends each input through ParseString, ParseBytes and Parse on one parser.
type c06HereG struct {
	Items []string `( @Heredoc | @Bare | @Ident | @End | @Line )*`
}

func c06Heredocs(c *mon.Child) {
	def, err := lexer.New(heredocRules())
	if err != nil {
		return
	}
	p, err := participle.Build[c06HereG](participle.Lexer(def), participle.Elide("WS"))
	if err != nil {
		c.Violation("", "heredoc", "heredoc grammar does not build: "+err.Error(), nil)
		return
	}
	r := c.RNG("heredoc")
	for i := 0; i < c.N(300, 3000); i++ {
		key := fmt.Sprintf("here%d", i)
		if !c.Want(key) {
			continue
		}
		in := heredocInput(r)
		switch i % 4 {
		case 1:
			in += "x <<<\nbody\n"
		case 2:
			in = "<<<\nEOF\n" + in
		case 3:
			in += "<<E\xffOF\nbody\nE\xffOF\n"
		}
		c.Begin(key, fmt.Sprintf("heredoc grammar <- %q", in))
		c06One(c, key, gram.WrapParser(p), "grammar over a back-reference (heredoc) lexer", in, "h.txt", false, func() interface{} { return map[string]interface{}{"input": in} })
		if i%4 != 0 {
			c.Nontrivial("here:" + in)
			c.Feature("heredoc_inputs_with_a_failing_back_reference_expansion")
		}
		c.End(key)
	}
}
