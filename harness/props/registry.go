// Package props holds one workload+oracle wiring per property.
package props

import "verifharness/mon"

// All is the registry of property checks.
var All = map[string]*mon.Spec{}

// Register adds a spec.
func Register(s *mon.Spec) { All[s.ID] = s }

func pick(tier string, quick, thorough int) int {
	if tier == "thorough" {
		return thorough
	}
	return quick
}
