package gram

// Hand-written witness grammars: the specific (grammar, input) pairs on which
// defects of the pinned tree were first observed. They are compiled into the
// first batch of the grammar-based checks on every run, so a repaired defect
// stays a permanent regression case (DESIGN.md 6). Inputs ride along in Feat
// as "input:<space separated tokens>".

func lit(s string) *Expr             { return &Expr{Op: "lit", Text: s} }
func ref(t string) *Expr             { return &Expr{Op: "ref", Typ: t} }
func capOf(f int, k *Expr) *Expr     { return &Expr{Op: "cap", Field: f, Kids: []*Expr{k}} }
func sub(f int) *Expr                { return &Expr{Op: "sub", Field: f} }
func seq(k ...*Expr) *Expr           { return &Expr{Op: "seq", Kids: k} }
func alt(k ...*Expr) *Expr           { return &Expr{Op: "alt", Kids: k} }
func grp(mode string, k *Expr) *Expr { return &Expr{Op: "grp", Mode: mode, Kids: []*Expr{k}} }

// Witnesses returns the witness grammars (profile: stateful lexer with Elide).
func Witnesses() []*Grammar {
	var out []*Grammar
	// W1 (C02/C01, fixed): capture, completed nested production, failure, other alternative wins.
	out = append(out, &Grammar{ID: "W1", Root: "W1P0", Profile: ProfStateful,
		Feat: []string{"witness:capture-leak", "input:a ( b ) y", "input:a ( b x ) y", "input:a ( b x )", "input:a y"},
		Prods: []*Prod{
			{Name: "W1P0", PosStyle: 1, Fields: []Field{{Name: "F0", Kind: "string"}, {Name: "F1", Kind: "ptr", Target: "W1P1"}, {Name: "F2", Kind: "string"}},
				Expr: alt(seq(capOf(0, ref("Ident")), sub(1), lit(";")), seq(capOf(2, ref("Ident")), grp("*", alt(lit("("), lit(")"), lit("b"), lit("x"))), lit("y")))},
			{Name: "W1P1", Fields: []Field{{Name: "F0", Kind: "string"}},
				Expr: seq(lit("("), capOf(0, ref("Ident")), grp("?", lit("x")), lit(")"))},
		}})
	// W2 (C02, fixed): the same inside *, ? and a lookahead group, with a sub-production failing part-way.
	out = append(out, &Grammar{ID: "W2", Root: "W2P0", Profile: ProfStateful,
		Feat: []string{"witness:capture-leak-in-groups", "input:a ( b c", "input:a ( b ) c", "input:c", "input:a ( b ) ; a ( b c", "input:zz q", "input:zz a"},
		Prods: []*Prod{
			{Name: "W2P0", Fields: []Field{{Name: "F0", Kind: "strs"}, {Name: "F1", Kind: "ptrs", Target: "W2P1"}, {Name: "F2", Kind: "bool"}, {Name: "F3", Kind: "string"}, {Name: "F4", Kind: "ptr", Target: "W2P1"}, {Name: "F5", Kind: "string"}},
				Expr: seq(grp("*", seq(capOf(0, ref("Ident")), sub(1), lit(";"))),
					&Expr{Op: "look", Negative: true, Kids: []*Expr{seq(capOf(2, lit("zz")), lit("q"))}},
					grp("?", seq(capOf(3, ref("Ident")), sub(4), lit("+"))),
					grp("*", capOf(5, grp("", alt(ref("Ident"), ref("Punct"))))))},
			{Name: "W2P1", Fields: []Field{{Name: "F0", Kind: "string"}},
				Expr: seq(lit("("), capOf(0, ref("Ident")), lit(")"))},
		}})
	// W3 (C01/C06, fixed): union whose first member is declared by value and whose matching member needs a pointer receiver.
	out = append(out, &Grammar{ID: "W3", Root: "W3P0", Profile: ProfStateful,
		Feat:   []string{"witness:union-member-template", "input:1 a", "input:1 2", "input:1 a 2"},
		Unions: []*Union{{Name: "W3U0", Members: []Member{{Prod: "W3P1"}, {Prod: "W3P2", Ptr: true}}}},
		Prods: []*Prod{
			{Name: "W3P0", Fields: []Field{{Name: "F0", Kind: "unis", Target: "W3U0"}}, Expr: seq(lit("1"), grp("+", sub(0)))},
			{Name: "W3P1", Fields: []Field{{Name: "F0", Kind: "string"}}, Expr: capOf(0, ref("Ident"))},
			{Name: "W3P2", PtrRecv: true, Fields: []Field{{Name: "F0", Kind: "int"}}, Expr: capOf(0, ref("Int"))},
		}})
	// W4 (C06, fixed): a capture that matches nothing into a lexer.Token field.
	out = append(out, &Grammar{ID: "W4", Root: "W4P0", Profile: ProfStateful,
		Feat: []string{"witness:empty-token-capture", "input:a", "input:select a", "input:"},
		Prods: []*Prod{
			{Name: "W4P0", Fields: []Field{{Name: "F0", Kind: "tok"}, {Name: "F1", Kind: "toks"}, {Name: "F2", Kind: "string"}},
				Expr: seq(capOf(0, &Expr{Op: "grp", Mode: "?", Brack: true, Kids: []*Expr{ref("Kw")}}), capOf(1, &Expr{Op: "grp", Mode: "*", Brack: true, Kids: []*Expr{ref("Kw")}}), grp("?", capOf(2, ref("Ident"))))},
		}})
	// W5 (C01/C17, open finding): Token capture whose first matched token follows elided tokens.
	out = append(out, &Grammar{ID: "W5", Root: "W5P0", Profile: ProfStateful,
		Feat: []string{"witness:token-capture-after-elided", "input:1 d From"},
		Prods: []*Prod{
			{Name: "W5P0", Fields: []Field{{Name: "F0", Kind: "toks"}}, Expr: seq(lit("1"), ref("Ident"), capOf(0, ref("Kw")))},
		}})
	return out
}
