package gram

import (
	"io"
	"reflect"

	"github.com/alecthomas/participle/v2"
	"github.com/alecthomas/participle/v2/lexer"
)

// Built is a type-erased view of a *participle.Parser[G].
type Built interface {
	ParseString(filename, s string, opts ...participle.ParseOption) (interface{}, error)
	ParseBytes(filename string, b []byte, opts ...participle.ParseOption) (interface{}, error)
	Parse(filename string, r io.Reader, opts ...participle.ParseOption) (interface{}, error)
	ParseFromLexer(pl *lexer.PeekingLexer, opts ...participle.ParseOption) (interface{}, error)
	Lex(filename string, r io.Reader) ([]lexer.Token, error)
	Lexer() lexer.Definition
	String() string
	// SubString calls ParserForProduction for a non-root production (when the
	// program registered one) and returns that parser's String().
	SubString() (string, bool, error)
}

// Handle is a registered grammar program: the IR it was emitted from and a
// way to Build it with run-time options.
type Handle struct {
	ID    string
	IR    string
	Build func(opts ...participle.Option) (Built, error)
}

// Registry holds the grammar programs compiled into this binary, in order.
var Registry []*Handle

type built[G any] struct {
	p  *participle.Parser[G]
	id string
}

// subs holds, per grammar id, a func(*participle.Parser[G]) (string, error).
var subs = map[string]interface{}{}

// RegSub registers the ParserForProduction probe of a grammar program.
func RegSub[G any](id string, f func(p *participle.Parser[G]) (string, error)) { subs[id] = f }

func (b built[G]) SubString() (string, bool, error) {
	f, ok := subs[b.id].(func(p *participle.Parser[G]) (string, error))
	if !ok {
		return "", false, nil
	}
	s, err := f(b.p)
	return s, true, err
}

func (b built[G]) ParseString(f, s string, o ...participle.ParseOption) (interface{}, error) {
	v, err := b.p.ParseString(f, s, o...)
	return v, err
}
func (b built[G]) ParseBytes(f string, s []byte, o ...participle.ParseOption) (interface{}, error) {
	v, err := b.p.ParseBytes(f, s, o...)
	return v, err
}
func (b built[G]) Parse(f string, r io.Reader, o ...participle.ParseOption) (interface{}, error) {
	v, err := b.p.Parse(f, r, o...)
	return v, err
}
func (b built[G]) ParseFromLexer(pl *lexer.PeekingLexer, o ...participle.ParseOption) (interface{}, error) {
	v, err := b.p.ParseFromLexer(pl, o...)
	return v, err
}
func (b built[G]) Lex(f string, r io.Reader) ([]lexer.Token, error) { return b.p.Lex(f, r) }
func (b built[G]) Lexer() lexer.Definition                          { return b.p.Lexer() }
func (b built[G]) String() string                                   { return b.p.String() }

// Reg registers a grammar program whose root type is G. extra supplies the
// options that need the concrete types (Union declarations).
func Reg[G any](id, ir string, extra func() []participle.Option) {
	Registry = append(Registry, &Handle{ID: id, IR: ir, Build: func(opts ...participle.Option) (Built, error) {
		all := append([]participle.Option{}, opts...)
		if extra != nil {
			all = append(all, extra()...)
		}
		p, err := participle.Build[G](all...)
		if err != nil {
			return nil, err
		}
		return built[G]{p, id}, nil
	}})
}

// PosMixin is embedded by productions with position style 2.
type PosMixin struct {
	Pos    lexer.Position
	EndPos lexer.Position
	Tokens []lexer.Token
}

// CapList is a field type that receives its captures through the Capture
// interface (pointer receiver); field kind "cstrs". It accumulates like []string.
type CapList struct{ V []string }

// Capture implements participle.Capture.
func (c *CapList) Capture(values []string) error {
	c.V = append(c.V, values...)
	return nil
}

var capListType = reflect.TypeOf(CapList{})

// MyPos is a named type convertible from lexer.Position (position style 3).
type MyPos lexer.Position

// Example is a parser of one of the repository's example grammars, compiled
// from a copy of the example's sources taken at check time.
type Example struct {
	Name   string
	Parser Built
	// UserCode marks grammars with Parseable / ParseTypeWith code, whose
	// errors may be foreign (error well-formedness is then not judged).
	UserCode bool
}

// Examples holds the example grammars compiled into this binary.
var Examples []*Example

// RegParser registers an example grammar's package-level parser.
func RegParser[G any](name string, p *participle.Parser[G], userCode bool) {
	Examples = append(Examples, &Example{Name: name, Parser: built[G]{p, ""}, UserCode: userCode})
}

// WrapParser gives a statically typed parser the type-erased Built view.
func WrapParser[G any](p *participle.Parser[G]) Built { return built[G]{p, ""} }
