package gram

import (
	"encoding/json"
	"io"
	"reflect"

	"github.com/alecthomas/participle/v2"
	"github.com/alecthomas/participle/v2/lexer"
)

// Built is a type-erased view of a *participle.Parser[G].
type Built interface {
	ParseString(filename, s string, opts ...participle.ParseOption) (interface{}, error)
	ParseBytes(filename string, b []byte, opts ...participle.ParseOption) (interface{}, error)
	Parse(filename string, r io.Reader, opts ...participle.ParseOption) (interface{}, error)
	ParseFromLexer(pl *lexer.PeekingLexer, opts ...participle.ParseOption) (interface{}, error)
	Lex(filename string, r io.Reader) ([]lexer.Token, error)
	Lexer() lexer.Definition
	String() string
	// SubString calls ParserForProduction for a non-root production (when the
	// program registered one) and returns that parser's String().
	SubString() (string, bool, error)
	// Sub returns the parser ParserForProduction derives from this one for the
	// registered non-root production, and that production's name.
	Sub() (Built, string, bool, error)
}

// Handle is a registered grammar program: the IR it was emitted from and a
// way to Build it with run-time options.
type Handle struct {
	ID    string
	IR    string
	Build func(opts ...participle.Option) (Built, error)
}

// Registry holds the grammar programs compiled into this binary, in order.
var Registry []*Handle

type built[G any] struct {
	p  *participle.Parser[G]
	id string
}

// subs holds, per grammar id, a func(*participle.Parser[G]) (string, error).
var subs = map[string]interface{}{}

// RegSub registers the ParserForProduction probe of a grammar program.
func RegSub[G any](id string, f func(p *participle.Parser[G]) (string, error)) { subs[id] = f }

func (b built[G]) SubString() (string, bool, error) {
	f, ok := subs[b.id].(func(p *participle.Parser[G]) (string, error))
	if !ok {
		return "", false, nil
	}
	s, err := f(b.p)
	return s, true, err
}

// subParsers holds, per grammar id, a func(*participle.Parser[G]) (Built, string, error).
var subParsers = map[string]interface{}{}

// RegSubParser registers how to derive the parser of production P from a parser of G.
func RegSubParser[G any, P any](id, prod string) {
	subProd[id] = prod
	subParsers[id] = func(p *participle.Parser[G]) (Built, string, error) {
		sp, err := participle.ParserForProduction[P, G](p)
		if err != nil {
			return nil, prod, err
		}
		return built[P]{sp, ""}, prod, nil
	}
}

func (b built[G]) Sub() (Built, string, bool, error) {
	f, ok := subParsers[b.id].(func(p *participle.Parser[G]) (Built, string, error))
	if !ok {
		return nil, "", false, nil
	}
	sb, prod, err := f(b.p)
	return sb, prod, true, err
}

// WithSubHandles returns the registry followed, for every n-th grammar that
// registered a non-root production, by a derived handle: the same types and
// options, but the parser is the one ParserForProduction hands out for that
// production and the IR has that production as its root. To a check it is one
// more grammar; to the library it is the other way of getting a parser.
func WithSubHandles(every int) []*Handle {
	out := append([]*Handle{}, Registry...)
	n := 0
	for _, h := range Registry {
		f := subParsers[h.ID]
		if f == nil {
			continue
		}
		n++
		if n%every != 0 {
			continue
		}
		g, err := ParseGrammar(h.IR)
		if err != nil {
			continue
		}
		h := h
		prod := subProd[h.ID]
		if prod == "" || g.Prod(prod) == nil {
			continue
		}
		g.Root = prod
		ir, err := json.Marshal(g)
		if err != nil {
			continue
		}
		out = append(out, &Handle{ID: h.ID + "s", IR: string(ir), Build: func(opts ...participle.Option) (Built, error) {
			b, err := h.Build(opts...)
			if err != nil {
				return nil, err
			}
			sb, _, _, err := b.Sub()
			if err != nil {
				return nil, err
			}
			return sb, nil
		}})
	}
	return out
}

// subProd remembers the production each RegSubParser call named.
var subProd = map[string]string{}

func (b built[G]) ParseString(f, s string, o ...participle.ParseOption) (interface{}, error) {
	v, err := b.p.ParseString(f, s, o...)
	return v, err
}
func (b built[G]) ParseBytes(f string, s []byte, o ...participle.ParseOption) (interface{}, error) {
	v, err := b.p.ParseBytes(f, s, o...)
	return v, err
}
func (b built[G]) Parse(f string, r io.Reader, o ...participle.ParseOption) (interface{}, error) {
	v, err := b.p.Parse(f, r, o...)
	return v, err
}
func (b built[G]) ParseFromLexer(pl *lexer.PeekingLexer, o ...participle.ParseOption) (interface{}, error) {
	v, err := b.p.ParseFromLexer(pl, o...)
	return v, err
}
func (b built[G]) Lex(f string, r io.Reader) ([]lexer.Token, error) { return b.p.Lex(f, r) }
func (b built[G]) Lexer() lexer.Definition                          { return b.p.Lexer() }
func (b built[G]) String() string                                   { return b.p.String() }

// Reg registers a grammar program whose root type is G. extra supplies the
// options that need the concrete types (Union declarations).
func Reg[G any](id, ir string, extra func() []participle.Option) {
	Registry = append(Registry, &Handle{ID: id, IR: ir, Build: func(opts ...participle.Option) (Built, error) {
		all := append([]participle.Option{}, opts...)
		if extra != nil {
			all = append(all, extra()...)
		}
		p, err := participle.Build[G](all...)
		if err != nil {
			return nil, err
		}
		return built[G]{p, id}, nil
	}})
}

// PosMixin is embedded by productions with position style 2.
type PosMixin struct {
	Pos    lexer.Position
	EndPos lexer.Position
	Tokens []lexer.Token
}

// CapList is a field type that receives its captures through the Capture
// interface (pointer receiver); field kind "cstrs". It accumulates like []string.
type CapList struct{ V []string }

// Capture implements participle.Capture.
func (c *CapList) Capture(values []string) error {
	c.V = append(c.V, values...)
	return nil
}

var capListType = reflect.TypeOf(CapList{})

// MyPos is a named type convertible from lexer.Position (position style 3).
type MyPos lexer.Position

// Example is a parser of one of the repository's example grammars, compiled
// from a copy of the example's sources taken at check time.
type Example struct {
	Name   string
	Parser Built
	// UserCode marks grammars with Parseable / ParseTypeWith code, whose
	// errors may be foreign (error well-formedness is then not judged).
	UserCode bool
}

// Examples holds the example grammars compiled into this binary.
var Examples []*Example

// RegParser registers an example grammar's package-level parser.
func RegParser[G any](name string, p *participle.Parser[G], userCode bool) {
	Examples = append(Examples, &Example{Name: name, Parser: built[G]{p, ""}, UserCode: userCode})
}

// WrapParser gives a statically typed parser the type-erased Built view.
func WrapParser[G any](p *participle.Parser[G]) Built { return built[G]{p, ""} }
