package gram

import (
	"strings"
	"text/scanner"

	"github.com/alecthomas/participle/v2"
	"github.com/alecthomas/participle/v2/lexer"

	"verifharness/mon"
)

// Lexer profiles for generated grammars. Small fixed vocabularies make
// collisions between literals, token references and typed literals common.
const (
	ProfDefault  = 0 // text/scanner default lexer
	ProfStateful = 1 // stateful lexer, WS and Comment elided through Elide()
	ProfLower    = 2 // same rules with lower-case ws/comment (dropped inside the lexer)
	ProfScanCfg  = 3 // text/scanner lexer made with NewTextScannerLexer(configure): comments kept, elided by the parser
)

// Term is a terminal of the input alphabet.
type Term struct {
	Text string
	Type string // token type name under the stateful profiles ("Ident","Int","Kw","Punct"); for the default lexer "Ident","Int","String" or "" for punctuation
}

// P1Rules are the rules of the stateful profile.
func P1Rules(lower bool) []lexer.SimpleRule {
	ws, cm := "WS", "Comment"
	if lower {
		ws, cm = "ws", "comment"
	}
	return []lexer.SimpleRule{
		{Name: cm, Pattern: `#[^\n]*`},
		{Name: ws, Pattern: `[ \t\n\r]+`},
		{Name: "Kw", Pattern: `(?i)\b(?:select|from)\b`},
		{Name: "Ident", Pattern: `[a-zA-Z_][a-zA-Z0-9_]*`},
		{Name: "Int", Pattern: `[0-9]+`},
		{Name: "Punct", Pattern: `[-+(),;]`},
	}
}

var (
	defP1 = lexer.MustSimple(P1Rules(false))
	defP2 = lexer.MustSimple(P1Rules(true))
	defP3 = lexer.NewTextScannerLexer(func(s *scanner.Scanner) {
		s.Mode = scanner.ScanIdents | scanner.ScanInts | scanner.ScanFloats | scanner.ScanStrings | scanner.ScanRawStrings | scanner.ScanChars | scanner.ScanComments
	})
)

// LexerOptions returns the participle options selecting the profile's lexer.
func LexerOptions(profile int) []participle.Option {
	switch profile {
	case ProfStateful:
		// two Elide options: the elision set is the union of all of them
		return []participle.Option{participle.Lexer(defP1), participle.Elide("WS"), participle.Elide("Comment")}
	case ProfLower:
		return []participle.Option{participle.Lexer(defP2)}
	case ProfScanCfg:
		return []participle.Option{participle.Lexer(defP3), participle.Elide("Comment")}
	}
	return nil
}

// ProfileDef returns the raw definition of a profile.
func ProfileDef(profile int) lexer.Definition {
	switch profile {
	case ProfStateful:
		return defP1
	case ProfLower:
		return defP2
	case ProfScanCfg:
		return defP3
	}
	return lexer.TextScannerLexer
}

// ElidedNames returns the token type names elided by the parser for a profile.
func ElidedNames(profile int) []string {
	if profile == ProfStateful {
		return []string{"WS", "Comment"}
	}
	if profile == ProfScanCfg {
		return []string{"Comment"}
	}
	return nil
}

// Terminals returns the terminal pool of a profile.
func Terminals(profile int) []Term {
	if profile == ProfDefault || profile == ProfScanCfg {
		return []Term{
			{"a", "Ident"}, {"b", "Ident"}, {"c", "Ident"}, {"d", "Ident"}, {"x", "Ident"}, {"y", "Ident"},
			{"1", "Int"}, {"2", "Int"}, {`"s"`, "String"},
			{"(", ""}, {")", ""}, {",", ""}, {";", ""}, {"+", ""}, {"-", ""},
		}
	}
	return []Term{
		{"a", "Ident"}, {"b", "Ident"}, {"c", "Ident"}, {"d", "Ident"}, {"x", "Ident"}, {"y", "Ident"},
		{"1", "Int"}, {"2", "Int"}, {"10", "Int"},
		{"select", "Kw"}, {"SELECT", "Kw"}, {"From", "Kw"},
		{"(", "Punct"}, {")", "Punct"}, {",", "Punct"}, {";", "Punct"}, {"+", "Punct"}, {"-", "Punct"},
	}
}

// RefTypes returns the token type names a grammar may reference.
func RefTypes(profile int) []string {
	if profile == ProfDefault || profile == ProfScanCfg {
		return []string{"Ident", "Int", "String"}
	}
	return []string{"Ident", "Int", "Kw", "Punct"}
}

func wordy(t string) bool {
	if t == "" {
		return false
	}
	c := t[len(t)-1]
	return c == '_' || c >= '0' && c <= '9' || c >= 'a' && c <= 'z' || c >= 'A' && c <= 'Z'
}

func wordyStart(t string) bool {
	if t == "" {
		return false
	}
	c := t[0]
	return c == '_' || c >= '0' && c <= '9' || c >= 'a' && c <= 'z' || c >= 'A' && c <= 'Z'
}

// Render turns a token string into text. style selects the spacing:
// 0 single spaces; 1 minimal; 2.. random mixes of spaces, newlines and comments.
// The non-elided token sequence is the same for every style.
func Render(profile int, toks []string, style int, r *mon.RNG) string {
	var sb strings.Builder
	comment := func() string {
		if profile == ProfDefault || profile == ProfScanCfg {
			return "// c" + r.Pick("", " x", " a b") + "\n"
		}
		return "# c" + r.Pick("", " x", " a b") + "\n"
	}
	sep := func(prev, next string, edge bool) string {
		need := wordy(prev) && wordyStart(next)
		if (profile == ProfDefault || profile == ProfScanCfg) && prev != "" && next != "" {
			// punctuation pairs could merge into other scanner tokens only for comments ("/" is not in the pool); strings are self-delimited
			if prev == "-" || prev == "+" {
				need = need || false
			}
		}
		switch style {
		case 0:
			if edge {
				return ""
			}
			return " "
		case 1:
			if need {
				return " "
			}
			return ""
		}
		switch r.Intn(9) {
		case 0:
			if need {
				return " "
			}
			return ""
		case 1:
			return " "
		case 2:
			return "\n"
		case 3:
			return "  \t "
		case 4:
			return " " + comment()
		case 5:
			return "\n" + comment() + "  "
		case 6:
			return "\r\n"
		case 7:
			return " " + comment() + comment()
		default:
			return " "
		}
	}
	prev := ""
	for _, t := range toks {
		sb.WriteString(sep(prev, t, prev == ""))
		sb.WriteString(t)
		prev = t
	}
	sb.WriteString(sep(prev, "", true))
	return sb.String()
}
