package gram

import (
	"fmt"
	"strconv"
	"strings"

	"github.com/alecthomas/participle/v2/lexer"
)

// Reference semantics of the tag language (DESIGN.md 3.1.5): a denotational
// evaluator over the IR and the token slice Parser.Lex returned. No contexts,
// no deferred side effects, no cursors mutated in place: captures are returned
// as values and a struct is assembled only from the captures of its accepted
// derivation.

// Node is an assembled production value.
type Node struct {
	Prod   string
	F      map[string]interface{} // string, []string, bool, int64, *TokExp, *Node, []*Node
	TokS   int                    // raw token range [TokS,TokE) the node consumed (Tokens field)
	TokE   int
	Pos    lexer.Position
	EndPos lexer.Position
	HasPos bool // false for zero-value nodes that were never parsed
}

// TokExp is the expected content of a lexer.Token / []lexer.Token field: the
// range demanded by the property (first matched .. last matched token) and the
// range starting at the capture's entry cursor (which differs when elided
// tokens precede the first matched token).
type TokExp struct {
	Multi        bool
	First, End   int // property: T[First:End); First<0: nothing matched
	Start        int // capture entry cursor
	WrittenTwice bool
}

type capRec struct {
	field             int
	vals              []interface{} // string or *Node
	start, first, end int
}

const (
	stNoMatch = iota
	stMatch
	stFail
)

type res struct {
	st    int
	r     int // match: new raw position; fail: raw position of the failing context
	vals  []interface{}
	caps  []capRec
	nvals int
	first int
}

// Trace counts the decisions the evaluator took: this is what the evidence
// files report as observed coverage.
type Trace struct {
	Abandoned         int // attempts given up at a choice point after a failure
	Committed         int // failures past the lookahead limit (propagated)
	NoMatchSkips      int // alternatives/iterations that simply did not match
	AbandonedWithCaps int // abandoned attempt had deferred captures
	AbandonedWithSub  int // ... and a completed sub-production inside
	AbandonedFailSub  int // ... and a sub-production that failed part-way
	LookDiscardCaps   int // captures made inside ~ / (?= ) / (?! ) and discarded
	ByKind            map[string]int
	Delta             map[int]int // consumed-k at commit/abandon decisions with a finite lookahead
	MaxSubDepth       int
	ElidedAtBacktrack int // an elided token lay directly at a position where an attempt was abandoned
	LaterAltWon       int
	TypedLitRejected  int // literal text matched but its type constraint did not
	CIFolded          int // literal matched only by case folding
	NonEmptyFailed    int
	NamedElidedMatch  int // a leaf matched a token of an elided type
	EOFMatched        int // an explicit EOF reference matched
}

// Env is one evaluation.
type Env struct {
	G             *Grammar
	T             []lexer.Token
	Sym           map[string]lexer.TokenType
	Elide         map[lexer.TokenType]bool
	CI            map[lexer.TokenType]bool
	K             int
	AllowTrailing bool
	Budget        int
	Steps         int
	Over          bool
	Unspec        string
	Tr            Trace

	cnt       []int
	capsMade  int
	subsDone  int
	subsFail  int
	subDepth  int
	prodCache map[string]*Prod
}

// NewEnv prepares an evaluation over a token slice (last token EOF).
func NewEnv(g *Grammar, toks []lexer.Token, sym map[string]lexer.TokenType, elide, ci []string, k int, allowTrailing bool) *Env {
	e := &Env{G: g, T: toks, Sym: sym, K: k, AllowTrailing: allowTrailing, Budget: 400000,
		Elide: map[lexer.TokenType]bool{}, CI: map[lexer.TokenType]bool{}, prodCache: map[string]*Prod{}}
	for _, n := range elide {
		e.Elide[sym[n]] = true
	}
	for _, n := range ci {
		e.CI[sym[n]] = true
	}
	e.Tr.ByKind = map[string]int{}
	e.Tr.Delta = map[int]int{}
	e.cnt = make([]int, len(toks)+1)
	for i, t := range toks {
		e.cnt[i+1] = e.cnt[i]
		if t.Type != lexer.EOF && !e.Elide[t.Type] {
			e.cnt[i+1]++
		}
	}
	return e
}

func (e *Env) elided(i int) bool {
	t := e.T[i]
	return t.Type != lexer.EOF && e.Elide[t.Type]
}

// nx is the first index >= r that is EOF or non-elided.
func (e *Env) nx(r int) int {
	for r < len(e.T)-1 && e.elided(r) {
		r++
	}
	return r
}

func (e *Env) step() bool {
	e.Steps++
	if e.Steps > e.Budget {
		e.Over = true
		return false
	}
	return true
}

// stop is the commit rule: a failed attempt that started at raw position
// start and whose failing context stands at p may be abandoned only if it
// consumed no more non-elided tokens than the lookahead.
func (e *Env) stop(p, start int, kind string) bool {
	consumed := e.cnt[p] - e.cnt[start]
	if e.K >= 0 {
		d := consumed - e.K
		if d >= -2 && d <= 2 {
			e.Tr.Delta[d]++
		}
	}
	if e.K >= 0 && consumed > e.K {
		e.Tr.Committed++
		e.Tr.ByKind["commit:"+kind]++
		return true
	}
	return false
}

type snap struct{ caps, done, fail int }

func (e *Env) snap() snap { return snap{e.capsMade, e.subsDone, e.subsFail} }

func (e *Env) abandoned(s snap, kind string, at int) {
	e.Tr.Abandoned++
	e.Tr.ByKind["abandon:"+kind]++
	if e.capsMade > s.caps {
		e.Tr.AbandonedWithCaps++
		e.Tr.ByKind["abandon-with-captures:"+kind]++
		if e.subsDone > s.done {
			e.Tr.AbandonedWithSub++
			e.Tr.ByKind["abandon-after-completed-sub:"+kind]++
		}
		if e.subsFail > s.fail {
			e.Tr.AbandonedFailSub++
			e.Tr.ByKind["abandon-after-failed-sub:"+kind]++
		}
		e.Tr.ByKind[fmt.Sprintf("abandon-with-captures@depth%d", e.subDepth)]++
	}
	if at < len(e.T) && e.elided(at) || at > 0 && e.elided(at-1) {
		e.Tr.ElidedAtBacktrack++
	}
}

func (e *Env) leaf(r int, pred func(t lexer.Token) bool) res {
	i := r
	for {
		t := e.T[i]
		if t.Type == lexer.EOF || pred(t) || !e.elided(i) {
			break
		}
		i++
	}
	t := e.T[i]
	if t.Type != lexer.EOF && pred(t) {
		if e.elided(i) {
			e.Tr.NamedElidedMatch++
		}
		return res{st: stMatch, r: i + 1, vals: []interface{}{t.Value}, nvals: 1, first: i}
	}
	return res{st: stNoMatch}
}

// leafEOF matches the end of input: elided tokens in front of EOF are skipped,
// EOF itself is never consumed (it can be matched again).
func (e *Env) leafEOF(r int) res {
	i := e.nx(r)
	if e.T[i].Type != lexer.EOF {
		return res{st: stNoMatch}
	}
	e.Tr.EOFMatched++
	return res{st: stMatch, r: i, vals: []interface{}{""}, nvals: 1, first: i}
}

func (e *Env) eval(p *Prod, x *Expr, r int) res {
	if !e.step() {
		return res{st: stFail, r: r}
	}
	switch x.Op {
	case "lit":
		var want lexer.TokenType
		typed := x.Typ != ""
		if typed {
			want = e.Sym[x.Typ]
		}
		return e.leaf(r, func(t lexer.Token) bool {
			eq := t.Value == x.Text
			folded := false
			if !eq && e.CI[t.Type] && strings.EqualFold(t.Value, x.Text) {
				eq, folded = true, true
			}
			if eq && typed && t.Type != want {
				e.Tr.TypedLitRejected++
				return false
			}
			if eq && folded {
				e.Tr.CIFolded++
			}
			return eq
		})
	case "ref":
		if x.Typ == "EOF" {
			return e.leafEOF(r)
		}
		want := e.Sym[x.Typ]
		return e.leaf(r, func(t lexer.Token) bool { return t.Type == want })
	case "seq":
		out := res{st: stMatch, r: r, first: -1}
		for i, k := range x.Kids {
			kr := e.eval(p, k, out.r)
			switch kr.st {
			case stFail:
				return kr
			case stNoMatch:
				if i == 0 {
					return res{st: stNoMatch}
				}
				return res{st: stFail, r: out.r}
			}
			out.r = kr.r
			out.vals = append(out.vals, kr.vals...)
			out.caps = append(out.caps, kr.caps...)
			out.nvals += kr.nvals
			if out.first < 0 {
				out.first = kr.first
			}
		}
		return out
	case "alt":
		return e.choice(r, len(x.Kids), "alternative", func(i int) res { return e.eval(p, x.Kids[i], r) })
	case "grp":
		return e.group(p, x, r)
	case "cap":
		kr := e.eval(p, x.Kids[0], r)
		if kr.st != stMatch {
			return kr
		}
		e.capsMade++
		return res{st: stMatch, r: kr.r, nvals: 1, first: kr.first, vals: []interface{}{"<parent>"},
			caps: []capRec{{field: x.Field, vals: kr.vals, start: r, first: kr.first, end: kr.r}}}
	case "sub":
		f := p.Fields[x.Field]
		kr := e.target(f.Target, r)
		if kr.st != stMatch {
			return kr
		}
		e.capsMade++
		return res{st: stMatch, r: kr.r, nvals: 1, first: kr.first, vals: []interface{}{"<parent>"},
			caps: []capRec{{field: x.Field, vals: kr.vals, start: r, first: kr.first, end: kr.r}}}
	case "neg":
		n := e.nx(r)
		if e.T[n].Type == lexer.EOF {
			return res{st: stNoMatch}
		}
		s := e.snap()
		kr := e.eval(p, x.Kids[0], r)
		if e.capsMade > s.caps {
			e.Tr.LookDiscardCaps++
		}
		if kr.st == stMatch {
			return res{st: stFail, r: r}
		}
		return res{st: stMatch, r: n + 1, vals: []interface{}{e.T[n].Value}, nvals: 1, first: n}
	case "look":
		s := e.snap()
		kr := e.eval(p, x.Kids[0], r)
		if e.capsMade > s.caps {
			e.Tr.LookDiscardCaps++
		}
		matched := kr.st == stMatch
		if matched == x.Negative {
			return res{st: stFail, r: r}
		}
		return res{st: stMatch, r: r, first: -1}
	}
	panic("gram: unknown op " + x.Op)
}

// choice implements ordered choice with the commit rule (alternatives and union members).
func (e *Env) choice(r int, n int, kind string, try func(i int) res) res {
	remembered := false
	for i := 0; i < n; i++ {
		s := e.snap()
		kr := try(i)
		switch kr.st {
		case stMatch:
			if i > 0 {
				e.Tr.LaterAltWon++
			}
			return kr
		case stFail:
			if e.Over {
				return kr
			}
			if e.stop(kr.r, r, kind) {
				return kr
			}
			e.abandoned(s, kind, kr.r)
			remembered = true
		default:
			e.Tr.NoMatchSkips++
		}
	}
	if remembered {
		return res{st: stFail, r: r}
	}
	return res{st: stNoMatch}
}

func (e *Env) group(p *Prod, x *Expr, r int) res {
	body := x.Kids[0]
	switch x.Mode {
	case "":
		return e.eval(p, body, r)
	case "!":
		kr := e.eval(p, body, r)
		if kr.st == stFail {
			return kr
		}
		if kr.st == stNoMatch {
			e.Tr.NonEmptyFailed++
			return res{st: stFail, r: r}
		}
		consumed := kr.r > r
		if (kr.nvals == 0) != !consumed {
			// "non-empty" by produced values and by consumed tokens disagree:
			// the documentation does not determine the result.
			e.Unspec = "nonempty-values-vs-tokens"
		}
		if kr.nvals == 0 {
			e.Tr.NonEmptyFailed++
			return res{st: stFail, r: kr.r}
		}
		return kr
	}
	max := 1 << 30
	if x.Mode == "?" {
		max = 1
	}
	kind := "group" + x.Mode
	out := res{st: stMatch, r: r, first: -1}
	matches := 0
	for matches < max {
		s := e.snap()
		kr := e.eval(p, body, out.r)
		if kr.st == stFail {
			if e.Over {
				return kr
			}
			if e.stop(kr.r, out.r, kind) {
				return kr
			}
			e.abandoned(s, kind, kr.r)
			break
		}
		if kr.st == stNoMatch {
			break
		}
		if kr.r == out.r && x.Mode != "?" {
			// A repetition body that matched without consuming: the library
			// treats this as a grammar bug; our generator never emits it.
			e.Unspec = "nullable-repetition-body"
			break
		}
		out.r = kr.r
		out.vals = append(out.vals, kr.vals...)
		out.caps = append(out.caps, kr.caps...)
		out.nvals += kr.nvals
		if out.first < 0 {
			out.first = kr.first
		}
		matches++
	}
	if x.Mode == "+" && matches == 0 {
		return res{st: stNoMatch}
	}
	return out
}

// target evaluates a production or union at r and returns its node as the single value.
func (e *Env) target(name string, r int) res {
	if u := e.G.Union(name); u != nil {
		return e.choice(r, len(u.Members), "union", func(i int) res { return e.target(u.Members[i].Prod, r) })
	}
	q := e.prodCache[name]
	if q == nil {
		q = e.G.Prod(name)
		e.prodCache[name] = q
	}
	e.subDepth++
	if e.subDepth > e.Tr.MaxSubDepth {
		e.Tr.MaxSubDepth = e.subDepth
	}
	kr := e.eval(q, q.Expr, r)
	e.subDepth--
	switch kr.st {
	case stNoMatch:
		return kr
	case stFail:
		e.subsFail++
		return kr
	}
	node, err := e.assemble(q, kr.caps, r, kr.r)
	if err != nil {
		// A conversion error fails the production after it consumed its input.
		e.subsFail++
		return res{st: stFail, r: kr.r}
	}
	e.subsDone++
	return res{st: stMatch, r: kr.r, vals: []interface{}{node}, nvals: 1, first: kr.first}
}

// ZeroNode is the value of a production nobody parsed (by-value fields).
func (e *Env) ZeroNode(name string) *Node { return ZeroNode(e.G, name) }

// ZeroNode builds the zero value of a production.
func ZeroNode(g *Grammar, name string) *Node {
	q := g.Prod(name)
	n := &Node{Prod: name, F: map[string]interface{}{}}
	for _, f := range q.Fields {
		if f.Kind == "val" {
			n.F[f.Name] = ZeroNode(g, f.Target)
		}
	}
	return n
}

func joinVals(vals []interface{}) string {
	var sb strings.Builder
	for _, v := range vals {
		if s, ok := v.(string); ok {
			sb.WriteString(s)
		}
	}
	return sb.String()
}

// assemble builds the struct value from the captures of the accepted derivation.
func (e *Env) assemble(q *Prod, caps []capRec, r, r2 int) (*Node, error) {
	n := ZeroNode(e.G, q.Name)
	n.TokS, n.TokE, n.HasPos = r, r2, true
	n.Pos = e.T[e.nx(r)].Pos
	n.EndPos = e.T[r2].Pos
	written := map[int]bool{}
	for _, c := range caps {
		f := q.Fields[c.field]
		switch f.Kind {
		case "string":
			s, _ := n.F[f.Name].(string)
			n.F[f.Name] = s + joinVals(c.vals)
		case "strs", "cstrs":
			s, _ := n.F[f.Name].([]string)
			for _, v := range c.vals {
				s = append(s, v.(string))
			}
			n.F[f.Name] = s
		case "bool":
			if len(c.vals) > 0 {
				n.F[f.Name] = true
			}
		case "int":
			if len(c.vals) == 0 {
				continue
			}
			if written[c.field] {
				e.Unspec = "scalar-captured-twice"
			}
			v, err := strconv.ParseInt(joinVals(c.vals), 0, strconv.IntSize)
			if err != nil {
				return nil, err
			}
			n.F[f.Name] = v
			written[c.field] = true
		case "tok", "toks":
			te := &TokExp{Multi: f.Kind == "toks", First: c.first, End: c.end, Start: c.start}
			if written[c.field] {
				te.WrittenTwice = true
				e.Unspec = "token-field-captured-twice"
			}
			n.F[f.Name] = te
			written[c.field] = true
		case "ptr", "val", "uni":
			if len(c.vals) == 0 {
				continue
			}
			if written[c.field] {
				e.Unspec = "scalar-captured-twice"
			}
			n.F[f.Name] = c.vals[0].(*Node)
			written[c.field] = true
		case "ptrs", "vals", "unis":
			s, _ := n.F[f.Name].([]*Node)
			for _, v := range c.vals {
				s = append(s, v.(*Node))
			}
			n.F[f.Name] = s
		}
	}
	return n, nil
}

// Outcome of a whole parse under the reference semantics.
type Outcome struct {
	OK   bool
	Root *Node
	End  int // raw position after the root (when the root matched)
}

// Run evaluates the root production on the whole token slice.
func (e *Env) Run() Outcome {
	kr := e.target(e.G.Root, 0)
	if kr.st != stMatch {
		return Outcome{}
	}
	if !e.AllowTrailing && e.T[e.nx(kr.r)].Type != lexer.EOF {
		return Outcome{End: kr.r}
	}
	return Outcome{OK: true, Root: kr.vals[0].(*Node), End: kr.r}
}
