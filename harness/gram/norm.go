package gram

import (
	"fmt"
	"reflect"

	"github.com/alecthomas/participle/v2/lexer"
)

var (
	tokType  = reflect.TypeOf(lexer.Token{})
	toksType = reflect.TypeOf([]lexer.Token{})
	posType  = reflect.TypeOf(lexer.Position{})
)

// RNode is the real AST in a plain, reflection-free form.
type RNode struct {
	Type      string
	F         map[string]interface{} // string, []string, bool, int64, lexer.Token, []lexer.Token, *RNode (nil = absent), []*RNode
	HasPos    bool
	HasEndPos bool
	HasTokens bool
	Pos       lexer.Position
	EndPos    lexer.Position
	Tokens    []lexer.Token
}

// FromReal converts a value returned by the parser (pointer to struct, struct,
// or interface holding either) into an RNode. nil pointers yield nil.
func FromReal(v reflect.Value) *RNode {
	for v.Kind() == reflect.Ptr || v.Kind() == reflect.Interface {
		if v.IsNil() {
			return nil
		}
		v = v.Elem()
	}
	if v.Kind() != reflect.Struct {
		return nil
	}
	t := v.Type()
	n := &RNode{Type: t.Name(), F: map[string]interface{}{}}
	if sf, ok := t.FieldByName("Pos"); ok && posType.ConvertibleTo(sf.Type) {
		n.HasPos = true
		n.Pos = v.FieldByIndex(sf.Index).Convert(posType).Interface().(lexer.Position)
	}
	if sf, ok := t.FieldByName("EndPos"); ok && posType.ConvertibleTo(sf.Type) {
		n.HasEndPos = true
		n.EndPos = v.FieldByIndex(sf.Index).Convert(posType).Interface().(lexer.Position)
	}
	if sf, ok := t.FieldByName("Tokens"); ok && sf.Type == toksType {
		n.HasTokens = true
		n.Tokens = v.FieldByIndex(sf.Index).Interface().([]lexer.Token)
	}
	for i := 0; i < t.NumField(); i++ {
		sf := t.Field(i)
		if sf.Anonymous || sf.Name == "Pos" || sf.Name == "EndPos" || sf.Name == "Tokens" || sf.PkgPath != "" {
			continue
		}
		fv := v.Field(i)
		ft := sf.Type
		switch {
		case ft == tokType:
			n.F[sf.Name] = fv.Interface().(lexer.Token)
		case ft == toksType:
			n.F[sf.Name] = fv.Interface().([]lexer.Token)
		case ft == capListType:
			var s []string
			s = append(s, fv.Interface().(CapList).V...)
			n.F[sf.Name] = s
		case ft.Kind() == reflect.String:
			n.F[sf.Name] = fv.String()
		case ft.Kind() == reflect.Bool:
			n.F[sf.Name] = fv.Bool()
		case ft.Kind() >= reflect.Int && ft.Kind() <= reflect.Int64:
			n.F[sf.Name] = fv.Int()
		case ft.Kind() == reflect.Slice && ft.Elem().Kind() == reflect.String:
			var s []string
			for j := 0; j < fv.Len(); j++ {
				s = append(s, fv.Index(j).String())
			}
			n.F[sf.Name] = s
		case ft.Kind() == reflect.Slice:
			var s []*RNode
			for j := 0; j < fv.Len(); j++ {
				s = append(s, FromReal(fv.Index(j)))
			}
			n.F[sf.Name] = s
		case ft.Kind() == reflect.Ptr || ft.Kind() == reflect.Interface || ft.Kind() == reflect.Struct:
			n.F[sf.Name] = FromReal(fv)
		}
	}
	return n
}

// Diff is one difference between the real AST and the reference AST.
type Diff struct {
	Path string
	Msg  string
	// Class is set when the difference matches the precise signature of a
	// catalogued defect.
	Class string
}

func (d Diff) String() string { return d.Path + ": " + d.Msg }

func tokStr(t lexer.Token) string { return fmt.Sprintf("%q@%d", t.Value, t.Pos.Offset) }

func toksStr(ts []lexer.Token) string {
	s := "["
	for i, t := range ts {
		if i > 0 {
			s += " "
		}
		s += tokStr(t)
	}
	return s + "]"
}

func sameToks(a, b []lexer.Token) bool {
	if len(a) != len(b) {
		return false
	}
	for i := range a {
		if a[i] != b[i] {
			return false
		}
	}
	return true
}

// Compare checks the captured fields of the real AST against the reference
// node, field by field. Positions and node token lists are not compared here
// (see ComparePos).
func Compare(g *Grammar, T []lexer.Token, real *RNode, exp *Node, path string, out *[]Diff) {
	if len(*out) > 8 {
		return
	}
	if real == nil || exp == nil {
		if !(real == nil && exp == nil) {
			*out = append(*out, Diff{Path: path, Msg: fmt.Sprintf("node presence differs: real nil=%v, reference nil=%v", real == nil, exp == nil)})
		}
		return
	}
	if real.Type != exp.Prod {
		*out = append(*out, Diff{Path: path, Msg: fmt.Sprintf("node type: real %s, reference %s", real.Type, exp.Prod)})
		return
	}
	q := g.Prod(exp.Prod)
	for _, f := range q.Fields {
		p := path + "." + f.Name
		rv := real.F[f.Name]
		ev := exp.F[f.Name]
		switch f.Kind {
		case "string":
			es, _ := ev.(string)
			if rs, _ := rv.(string); rs != es {
				*out = append(*out, Diff{Path: p, Msg: fmt.Sprintf("string: real %q, reference %q", rs, es)})
			}
		case "strs", "cstrs":
			es, _ := ev.([]string)
			rs, _ := rv.([]string)
			if fmt.Sprintf("%q", rs) != fmt.Sprintf("%q", es) {
				*out = append(*out, Diff{Path: p, Msg: fmt.Sprintf("[]string: real %q, reference %q", rs, es)})
			}
		case "bool":
			eb, _ := ev.(bool)
			if rb, _ := rv.(bool); rb != eb {
				*out = append(*out, Diff{Path: p, Msg: fmt.Sprintf("bool: real %v, reference %v", rb, eb)})
			}
		case "int":
			ei, _ := ev.(int64)
			if ri, _ := rv.(int64); ri != ei {
				*out = append(*out, Diff{Path: p, Msg: fmt.Sprintf("int: real %d, reference %d", ri, ei)})
			}
		case "tok":
			rt, _ := rv.(lexer.Token)
			te, _ := ev.(*TokExp)
			var want lexer.Token
			if te != nil && te.First >= 0 {
				want = T[te.First]
			}
			if rt != want {
				d := Diff{Path: p, Msg: fmt.Sprintf("lexer.Token: real %s, reference (first matched token) %s", tokStr(rt), tokStr(want))}
				if te != nil && te.First > te.Start && rt == T[te.Start] {
					d.Class = "token-capture-starts-at-elided-token"
				}
				*out = append(*out, d)
			}
		case "toks":
			rt, _ := rv.([]lexer.Token)
			te, _ := ev.(*TokExp)
			var want []lexer.Token
			if te != nil && te.First >= 0 {
				want = T[te.First:te.End]
			}
			if !sameToks(rt, want) {
				d := Diff{Path: p, Msg: fmt.Sprintf("[]lexer.Token: real %s, reference (first..last matched token) %s", toksStr(rt), toksStr(want))}
				if te != nil && te.First > te.Start && sameToks(rt, T[te.Start:te.End]) {
					d.Class = "token-capture-starts-at-elided-token"
				}
				*out = append(*out, d)
			}
		case "ptr", "uni":
			rn, _ := rv.(*RNode)
			en, _ := ev.(*Node)
			Compare(g, T, rn, en, p, out)
		case "val":
			rn, _ := rv.(*RNode)
			en, _ := ev.(*Node)
			Compare(g, T, rn, en, p, out)
		case "ptrs", "vals", "unis":
			rs, _ := rv.([]*RNode)
			es, _ := ev.([]*Node)
			if len(rs) != len(es) {
				*out = append(*out, Diff{Path: p, Msg: fmt.Sprintf("slice length: real %d, reference %d", len(rs), len(es))})
				continue
			}
			for i := range rs {
				Compare(g, T, rs[i], es[i], fmt.Sprintf("%s[%d]", p, i), out)
			}
		}
	}
}

// PosCheck verifies node positions and token lists (C11) against the
// reference ranges; returns differences and counts nodes checked.
func ComparePos(g *Grammar, T []lexer.Token, namesElided bool, real *RNode, exp *Node, path string, out *[]Diff, nodes *int) {
	if real == nil || exp == nil || len(*out) > 8 {
		return
	}
	if exp.HasPos {
		*nodes++
		if real.HasTokens {
			want := T[exp.TokS:exp.TokE]
			if !sameToks(real.Tokens, want) {
				*out = append(*out, Diff{Path: path, Msg: fmt.Sprintf("Tokens: real %s, reference T[%d:%d]=%s", toksStr(real.Tokens), exp.TokS, exp.TokE, toksStr(want))})
			}
		}
		if exp.TokE > exp.TokS && !namesElided {
			if real.HasPos && real.Pos != exp.Pos {
				*out = append(*out, Diff{Path: path, Msg: fmt.Sprintf("Pos: real %v, reference (first non-elided token of the node) %v", real.Pos, exp.Pos)})
			}
			if real.HasEndPos && real.EndPos != exp.EndPos {
				*out = append(*out, Diff{Path: path, Msg: fmt.Sprintf("EndPos: real %v, reference (next raw token after the node) %v", real.EndPos, exp.EndPos)})
			}
		}
	}
	q := g.Prod(exp.Prod)
	if q == nil || real.Type != exp.Prod {
		return
	}
	for _, f := range q.Fields {
		p := path + "." + f.Name
		switch f.Kind {
		case "ptr", "uni", "val":
			rn, _ := real.F[f.Name].(*RNode)
			en, _ := exp.F[f.Name].(*Node)
			ComparePos(g, T, namesElided, rn, en, p, out, nodes)
		case "ptrs", "vals", "unis":
			rs, _ := real.F[f.Name].([]*RNode)
			es, _ := exp.F[f.Name].([]*Node)
			for i := range rs {
				if i < len(es) {
					ComparePos(g, T, namesElided, rs[i], es[i], fmt.Sprintf("%s[%d]", p, i), out, nodes)
				}
			}
		}
	}
}

// Canon renders the captured fields of a real AST canonically (used by the
// metamorphic checks: C10, C13, C15). Positions and token lists are left out
// unless withPos is set.
func (n *RNode) Canon(withPos bool) string {
	if n == nil {
		return "nil"
	}
	s := n.Type + "{"
	keys := make([]string, 0, len(n.F))
	for k := range n.F {
		keys = append(keys, k)
	}
	sortStrings(keys)
	for _, k := range keys {
		switch v := n.F[k].(type) {
		case *RNode:
			s += k + ":" + v.Canon(withPos) + ","
		case []*RNode:
			s += k + ":["
			for _, x := range v {
				s += x.Canon(withPos) + ","
			}
			s += "],"
		case lexer.Token:
			if withPos {
				s += fmt.Sprintf("%s:%#v,", k, v)
			} else {
				s += fmt.Sprintf("%s:tok(%d,%q),", k, v.Type, v.Value)
			}
		case []lexer.Token:
			s += k + ":toks["
			for _, t := range v {
				if withPos {
					s += fmt.Sprintf("%#v,", t)
				} else {
					s += fmt.Sprintf("(%d,%q),", t.Type, t.Value)
				}
			}
			s += "],"
		case []string:
			s += fmt.Sprintf("%s:%q,", k, v)
		default:
			s += fmt.Sprintf("%s:%#v,", k, v)
		}
	}
	if withPos {
		s += fmt.Sprintf("Pos:%v,EndPos:%v,Tokens:%s", n.Pos, n.EndPos, toksStr(n.Tokens))
	}
	return s + "}"
}

func sortStrings(a []string) {
	for i := 1; i < len(a); i++ {
		for j := i; j > 0 && a[j] < a[j-1]; j-- {
			a[j], a[j-1] = a[j-1], a[j]
		}
	}
}

// CanonNoTokens is Canon(false) with lexer.Token / []lexer.Token fields masked.
func (n *RNode) CanonNoTokens() string {
	if n == nil {
		return "nil"
	}
	s := n.Type + "{"
	keys := make([]string, 0, len(n.F))
	for k := range n.F {
		keys = append(keys, k)
	}
	sortStrings(keys)
	for _, k := range keys {
		switch v := n.F[k].(type) {
		case *RNode:
			s += k + ":" + v.CanonNoTokens() + ","
		case []*RNode:
			s += k + ":["
			for _, x := range v {
				s += x.CanonNoTokens() + ","
			}
			s += "],"
		case lexer.Token, []lexer.Token:
			s += k + ":tok(*),"
		case []string:
			s += fmt.Sprintf("%s:%q,", k, v)
		default:
			s += fmt.Sprintf("%s:%#v,", k, v)
		}
	}
	return s + "}"
}

// TokenFieldStartsElided reports whether some lexer.Token field (or the first
// element of a []lexer.Token field) of the tree holds a token of an elided type.
func (n *RNode) TokenFieldStartsElided(el map[lexer.TokenType]bool) bool {
	if n == nil {
		return false
	}
	for _, v := range n.F {
		switch x := v.(type) {
		case lexer.Token:
			if el[x.Type] {
				return true
			}
		case []lexer.Token:
			if len(x) > 0 && el[x[0].Type] {
				return true
			}
		case *RNode:
			if x.TokenFieldStartsElided(el) {
				return true
			}
		case []*RNode:
			for _, k := range x {
				if k.TokenFieldStartsElided(el) {
					return true
				}
			}
		}
	}
	return false
}

// CanonModuloElided is Canon(false) with tokens of elided types dropped from
// []lexer.Token fields: the run of a multi-token capture contains the elided
// tokens lying between its matched tokens, which legitimately vary with spacing.
func (n *RNode) CanonModuloElided(el map[lexer.TokenType]bool) string {
	if n == nil {
		return "nil"
	}
	s := n.Type + "{"
	keys := make([]string, 0, len(n.F))
	for k := range n.F {
		keys = append(keys, k)
	}
	sortStrings(keys)
	for _, k := range keys {
		switch v := n.F[k].(type) {
		case *RNode:
			s += k + ":" + v.CanonModuloElided(el) + ","
		case []*RNode:
			s += k + ":["
			for _, x := range v {
				s += x.CanonModuloElided(el) + ","
			}
			s += "],"
		case lexer.Token:
			s += fmt.Sprintf("%s:tok(%d,%q),", k, v.Type, v.Value)
		case []lexer.Token:
			s += k + ":toks["
			for i, t := range v {
				if el[t.Type] && i > 0 {
					continue
				}
				s += fmt.Sprintf("(%d,%q),", t.Type, t.Value)
			}
			s += "],"
		case []string:
			s += fmt.Sprintf("%s:%q,", k, v)
		default:
			s += fmt.Sprintf("%s:%#v,", k, v)
		}
	}
	return s + "}"
}
