// Package gram is the grammar engine: an IR of participle's tag language, a
// generator, static analyses, a Go source emitter, input samplers, the
// reference (denotational) semantics and the AST normaliser.
package gram

import (
	"encoding/json"
	"fmt"
	"strconv"
	"strings"
)

// Expr is a node of the tag language. The IR mirrors the concrete syntax:
// alt may appear only at the top of a production or directly inside grp/look;
// seq only there or directly inside alt.
type Expr struct {
	Op       string  `json:"op"` // seq alt grp lit ref cap sub neg look
	Kids     []*Expr `json:"kids,omitempty"`
	Mode     string  `json:"mode,omitempty"`  // grp: "" ? * + !
	Brack    bool    `json:"brack,omitempty"` // print ? as [ ] and * as { }
	Text     string  `json:"text,omitempty"`  // lit
	Typ      string  `json:"typ,omitempty"`   // lit type constraint / ref token type
	Field    int     `json:"field"`           // cap, sub
	Negative bool    `json:"negative,omitempty"`
	Single   bool    `json:"single,omitempty"` // lit printed with single quotes
	Bang     bool    `json:"bang,omitempty"`   // neg printed as prefix ! instead of ~
}

// Field of a production.
type Field struct {
	Name   string `json:"name"`
	Kind   string `json:"kind"`             // string strs bool int tok toks ptr val ptrs vals uni unis
	Target string `json:"target,omitempty"` // production or union name for ptr/val/ptrs/vals/uni/unis
}

// Prod is a production (a Go struct type).
type Prod struct {
	Name     string  `json:"name"`
	Fields   []Field `json:"fields"`
	Expr     *Expr   `json:"expr"`
	PosStyle int     `json:"pos_style"` // 0 none, 1 direct Pos/EndPos/Tokens, 2 embedded struct, 3 convertible named position type, 4 only Tokens, 5 only EndPos, 6 only Pos (named type), 7 EndPos (named type) and Tokens
	PtrRecv  bool    `json:"ptr_recv,omitempty"`
	ParserKV bool    `json:"parser_kv,omitempty"` // tags emitted as parser:"..."
}

// Member of a union.
type Member struct {
	Prod string `json:"prod"`
	Ptr  bool   `json:"ptr,omitempty"` // declared as &M{} instead of M{}
}

// Union is an interface type with an ordered member list.
type Union struct {
	Name    string   `json:"name"`
	Members []Member `json:"members"`
}

// Grammar is a set of productions with a root.
type Grammar struct {
	ID      string   `json:"id"`
	Root    string   `json:"root"`
	Prods   []*Prod  `json:"prods"`
	Unions  []*Union `json:"unions,omitempty"`
	Profile int      `json:"profile"`            // lexer profile
	NamesEl bool     `json:"names_el,omitempty"` // grammar names an elided token type
	Feat    []string `json:"feat,omitempty"`     // generator's bias notes
}

// JSON renders the grammar.
func (g *Grammar) JSON() string {
	b, _ := json.Marshal(g)
	return string(b)
}

// ParseGrammar decodes a grammar.
func ParseGrammar(s string) (*Grammar, error) {
	g := &Grammar{}
	if err := json.Unmarshal([]byte(s), g); err != nil {
		return nil, err
	}
	return g, nil
}

// Prod returns a production by name.
func (g *Grammar) Prod(name string) *Prod {
	for _, p := range g.Prods {
		if p.Name == name {
			return p
		}
	}
	return nil
}

// Union returns a union by name.
func (g *Grammar) Union(name string) *Union {
	for _, u := range g.Unions {
		if u.Name == name {
			return u
		}
	}
	return nil
}

// ---------------------------------------------------------------- printing

// ptok is one token of the printed tag text; Field>=0 marks a capture's '@'.
type ptok struct {
	s     string
	field int
}

func quoteLit(e *Expr) string {
	var s string
	if e.Single && !strings.ContainsAny(e.Text, `'"\`) && e.Text != "" {
		s = "'" + e.Text + "'"
	} else {
		s = strconv.Quote(e.Text)
	}
	if e.Typ != "" {
		s += ":" + e.Typ
	}
	return s
}

func (e *Expr) simpleTerm() bool {
	switch e.Op {
	case "lit", "ref", "cap", "sub", "neg":
		return true
	case "grp":
		return e.Mode == "" || e.Brack
	}
	return false
}

func (e *Expr) toks(out *[]ptok) {
	add := func(s string) { *out = append(*out, ptok{s, -1}) }
	switch e.Op {
	case "seq":
		for _, k := range e.Kids {
			k.toks(out)
		}
	case "alt":
		for i, k := range e.Kids {
			if i > 0 {
				add("|")
			}
			k.toks(out)
		}
	case "lit":
		add(quoteLit(e))
	case "ref":
		add(e.Typ)
	case "cap":
		*out = append(*out, ptok{"@", e.Field})
		e.Kids[0].toks(out)
	case "sub":
		*out = append(*out, ptok{"@@", e.Field})
	case "neg":
		if e.Bang {
			add("!")
		} else {
			add("~")
		}
		e.Kids[0].toks(out)
	case "look":
		if e.Negative {
			add("(?!")
		} else {
			add("(?=")
		}
		e.Kids[0].toks(out)
		add(")")
	case "grp":
		k := e.Kids[0]
		switch {
		case e.Brack && e.Mode == "?":
			add("[")
			k.toks(out)
			add("]")
		case e.Brack && e.Mode == "*":
			add("{")
			k.toks(out)
			add("}")
		case e.Mode == "":
			add("(")
			k.toks(out)
			add(")")
		default:
			if k.simpleTerm() {
				k.toks(out)
			} else {
				add("(")
				k.toks(out)
				add(")")
			}
			add(e.Mode)
		}
	}
}

// TagText prints the whole production as one tag-language text.
func (p *Prod) TagText() string {
	var ts []ptok
	p.Expr.toks(&ts)
	ss := make([]string, len(ts))
	for i, t := range ts {
		ss[i] = t.s
	}
	return joinToks(ss)
}

func joinToks(ss []string) string {
	var sb strings.Builder
	for i, s := range ss {
		if i > 0 && !(ss[i-1] == "@" || ss[i-1] == "~" || ss[i-1] == "!" && false) {
			sb.WriteString(" ")
		}
		sb.WriteString(s)
	}
	return sb.String()
}

// FieldTags splits the production's text into one chunk per field, so that
// every '@' lies in the tag of the field it captures into.
func (p *Prod) FieldTags() []string {
	var ts []ptok
	p.Expr.toks(&ts)
	n := len(p.Fields)
	chunks := make([][]string, n)
	cur := 0
	for _, t := range ts {
		if t.field > cur {
			cur = t.field
		}
		chunks[cur] = append(chunks[cur], t.s)
	}
	out := make([]string, n)
	for i := range chunks {
		out[i] = joinToks(chunks[i])
	}
	return out
}

// String renders the grammar compactly for reports.
func (g *Grammar) String() string {
	var sb strings.Builder
	for _, p := range g.Prods {
		fmt.Fprintf(&sb, "%s{", p.Name)
		for i, f := range p.Fields {
			if i > 0 {
				sb.WriteString(",")
			}
			fmt.Fprintf(&sb, "%s:%s", f.Name, f.Kind)
			if f.Target != "" {
				sb.WriteString("->" + f.Target)
			}
		}
		fmt.Fprintf(&sb, "} = %s ; ", p.TagText())
	}
	for _, u := range g.Unions {
		fmt.Fprintf(&sb, "%s = union(", u.Name)
		for i, m := range u.Members {
			if i > 0 {
				sb.WriteString(",")
			}
			if m.Ptr {
				sb.WriteString("&")
			}
			sb.WriteString(m.Prod)
		}
		sb.WriteString(") ; ")
	}
	fmt.Fprintf(&sb, "root=%s profile=%d", g.Root, g.Profile)
	return sb.String()
}

// ---------------------------------------------------------------- analyses

// Analysis holds fixpoint results over a grammar.
type Analysis struct {
	g        *Grammar
	Nullable map[string]bool // production or union name
}

// Analyse computes nullability of every production and union.
func Analyse(g *Grammar) *Analysis {
	a := &Analysis{g: g, Nullable: map[string]bool{}}
	for changed := true; changed; {
		changed = false
		for _, p := range g.Prods {
			if !a.Nullable[p.Name] && a.ExprNullable(p, p.Expr) {
				a.Nullable[p.Name] = true
				changed = true
			}
		}
		for _, u := range g.Unions {
			if a.Nullable[u.Name] {
				continue
			}
			for _, m := range u.Members {
				if a.Nullable[m.Prod] {
					a.Nullable[u.Name] = true
					changed = true
					break
				}
			}
		}
	}
	return a
}

// ExprNullable reports whether e can match without consuming a token.
func (a *Analysis) ExprNullable(p *Prod, e *Expr) bool {
	switch e.Op {
	case "lit":
		return e.Text == ""
	case "ref":
		return e.Typ == "EOF" // matching EOF consumes nothing: it can be matched again and again
	case "neg":
		return false
	case "look":
		return true
	case "cap":
		return a.ExprNullable(p, e.Kids[0])
	case "sub":
		return a.Nullable[p.Fields[e.Field].Target]
	case "seq":
		for _, k := range e.Kids {
			if !a.ExprNullable(p, k) {
				return false
			}
		}
		return true
	case "alt":
		for _, k := range e.Kids {
			if a.ExprNullable(p, k) {
				return true
			}
		}
		return false
	case "grp":
		switch e.Mode {
		case "?", "*":
			return true
		default:
			return a.ExprNullable(p, e.Kids[0])
		}
	}
	return true
}

// BugClass reports a construct the library itself treats as a grammar bug:
// an alternative (or union member) or a repetition body that can match
// without consuming input. "" when the grammar is free of them.
func (a *Analysis) BugClass() string {
	for _, p := range a.g.Prods {
		if s := a.bugIn(p, p.Expr); s != "" {
			return p.Name + ": " + s
		}
	}
	for _, u := range a.g.Unions {
		for _, m := range u.Members {
			if a.Nullable[m.Prod] {
				return u.Name + ": nullable union member " + m.Prod
			}
		}
	}
	return ""
}

func (a *Analysis) bugIn(p *Prod, e *Expr) string {
	switch e.Op {
	case "alt":
		for _, k := range e.Kids {
			if k.Op == "ref" && k.Typ == "EOF" {
				continue // the library's "accepted but did not progress" check exempts EOF
			}
			if a.ExprNullable(p, k) {
				return "nullable alternative"
			}
		}
	case "grp":
		if (e.Mode == "*" || e.Mode == "+") && a.ExprNullable(p, e.Kids[0]) {
			return "nullable repetition body"
		}
	}
	for _, k := range e.Kids {
		if s := a.bugIn(p, k); s != "" {
			return s
		}
	}
	return ""
}

// LeftCalls returns the productions/unions that can be entered at the left
// edge of e (before any token is consumed).
func (a *Analysis) leftCalls(p *Prod, e *Expr, out map[string]bool) {
	switch e.Op {
	case "sub":
		out[p.Fields[e.Field].Target] = true
	case "cap", "neg", "look", "grp":
		a.leftCalls(p, e.Kids[0], out)
	case "alt":
		for _, k := range e.Kids {
			a.leftCalls(p, k, out)
		}
	case "seq":
		for _, k := range e.Kids {
			a.leftCalls(p, k, out)
			if !a.ExprNullable(p, k) {
				break
			}
		}
	}
}

// LeftRecursive reports whether some production can re-enter itself before
// consuming a token, and names one such production.
func (a *Analysis) LeftRecursive() (bool, string) {
	edges := map[string]map[string]bool{}
	for _, p := range a.g.Prods {
		m := map[string]bool{}
		a.leftCalls(p, p.Expr, m)
		edges[p.Name] = m
	}
	for _, u := range a.g.Unions {
		m := map[string]bool{}
		for _, mem := range u.Members {
			m[mem.Prod] = true
		}
		edges[u.Name] = m
	}
	// reachable only from the root matters for Build, but participle
	// validates every production reachable from the root; so do we.
	reach := a.Compiled()
	for _, p := range a.g.Prods {
		if !reach[p.Name] {
			continue
		}
		seen := map[string]bool{}
		stack := []string{}
		for t := range edges[p.Name] {
			stack = append(stack, t)
		}
		for len(stack) > 0 {
			n := stack[len(stack)-1]
			stack = stack[:len(stack)-1]
			if n == p.Name {
				return true, p.Name
			}
			if seen[n] {
				continue
			}
			seen[n] = true
			for t := range edges[n] {
				stack = append(stack, t)
			}
		}
	}
	return false, ""
}

// Reachable returns the productions and unions reachable from the root.
// Reachable returns the productions and unions the root refers to, directly or indirectly.
func (a *Analysis) Reachable() map[string]bool { return a.reach(false) }

// Compiled returns what Build compiles: everything reachable from the root plus every declared union and its members.
func (a *Analysis) Compiled() map[string]bool { return a.reach(true) }

func (a *Analysis) reach(compiled bool) map[string]bool {
	seen := map[string]bool{}
	var visit func(name string)
	var walk func(p *Prod, e *Expr)
	walk = func(p *Prod, e *Expr) {
		if e.Op == "sub" {
			visit(p.Fields[e.Field].Target)
		}
		for _, k := range e.Kids {
			walk(p, k)
		}
	}
	visit = func(name string) {
		if seen[name] {
			return
		}
		seen[name] = true
		if p := a.g.Prod(name); p != nil {
			walk(p, p.Expr)
		} else if u := a.g.Union(name); u != nil {
			for _, m := range u.Members {
				visit(m.Prod)
			}
		}
	}
	visit(a.g.Root)
	if compiled {
		// every declared union is compiled by Build (and can be parsed through ParserForProduction),
		// whether or not the root refers to it
		for _, u := range a.g.Unions {
			visit(u.Name)
		}
	}
	return seen
}

// Walk visits every expression node of the production.
func Walk(e *Expr, f func(e *Expr)) {
	f(e)
	for _, k := range e.Kids {
		Walk(k, f)
	}
}

// Count returns the number of expression nodes in the grammar.
func (g *Grammar) Count() int {
	n := 0
	for _, p := range g.Prods {
		Walk(p.Expr, func(*Expr) { n++ })
	}
	return n
}

// UsesOp reports whether any production uses the operator (op, mode).
func (g *Grammar) UsesOp(op string) bool {
	found := false
	for _, p := range g.Prods {
		Walk(p.Expr, func(e *Expr) {
			if e.Op == op {
				found = true
			}
		})
	}
	return found
}

// writes returns 0, 1 or 2 (=many): how often field f can be written along one derivation of e.
func writes(e *Expr, f int) int {
	switch e.Op {
	case "cap", "sub":
		if e.Field == f {
			return 1
		}
		return 0
	case "neg", "look":
		return 0
	case "seq":
		n := 0
		for _, k := range e.Kids {
			n += writes(k, f)
		}
		if n > 2 {
			n = 2
		}
		return n
	case "alt":
		n := 0
		for _, k := range e.Kids {
			if w := writes(k, f); w > n {
				n = w
			}
		}
		return n
	case "grp":
		w := writes(e.Kids[0], f)
		if (e.Mode == "*" || e.Mode == "+") && w > 0 {
			return 2
		}
		return w
	}
	return 0
}
