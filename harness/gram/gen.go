package gram

import (
	"fmt"

	"verifharness/mon"
)

// GenOpts steer grammar generation.
type GenOpts struct {
	Profile      int
	MaxProds     int
	Budget       int  // expression nodes per production
	Depth        int  // nesting depth
	NoNegLook    bool // C13: no ~ and no lookahead groups
	NamesElided  bool // the grammar may reference the elided token types
	TokKinds     bool // allow lexer.Token / []lexer.Token fields
	NoInt        bool
	Unions       bool
	SharePrefix  int // out of 10: how often the next alternative is a variation of the previous one
	CaptureBias  int // out of 10: how often a term is wrapped in a capture
	SubBias      int // weight of @@ among terms
	AllowBang    bool
	ForcePos     bool // every production carries Pos, EndPos and Tokens
	AllowLeftRec bool // C08: place @@ anywhere, do not filter left-recursive grammars
	OddLits      bool // C14: literals needing escapes (quotes, backslash, non-ASCII, blanks)
	MoreUnions   bool // always declare unions when there are enough productions, and prefer them as @@ targets
	WholeBody    bool // some productions consist of exactly one modified group: ( a b )+ , { a | b } "x"
	EOFRefs      bool // alternatives may end in an explicit EOF reference: ( ";" | EOF )
	TokMulti     bool // C11: []lexer.Token fields may be captured repeatedly (only node positions are judged then)
	CapTypes     bool // some string-list fields are of a type implementing participle.Capture
	CatchAll     int  // out of 10: the root becomes ( body )? followed by a capture-everything tail, so that skipping the body still parses
}

type genState struct {
	r        *mon.RNG
	o        *GenOpts
	g        *Grammar
	n        int            // number of productions
	declNull []bool         // declared "may be nullable"
	terms    []Term         // terminal pool
	lits     []Term         // terminals usable as literals
	refs     []string       // referencable token types
	unionMin map[string]int // smallest member index
	valEdge  map[int][]int  // by-value field graph
}

func pname(id string, i int) string { return fmt.Sprintf("%sP%d", id, i) }
func uname(id string, i int) string { return fmt.Sprintf("%sU%d", id, i) }

// Generate produces a grammar that is, by our own analyses, free of
// left recursion and of the constructs the library treats as grammar bugs.
func Generate(r *mon.RNG, id string, o *GenOpts) *Grammar {
	for try := 0; ; try++ {
		g := generateOnce(r.Fork("try", try), id, o)
		a := Analyse(g)
		if a.BugClass() != "" {
			continue
		}
		if lr, _ := a.LeftRecursive(); lr && !o.AllowLeftRec {
			continue
		}
		return g
	}
}

func generateOnce(r *mon.RNG, id string, o *GenOpts) *Grammar {
	s := &genState{r: r, o: o, unionMin: map[string]int{}, valEdge: map[int][]int{}}
	s.g = &Grammar{ID: id, Profile: o.Profile}
	s.n = 1 + r.Weighted(2, 3, 3, 2, 1)
	if s.n > o.MaxProds {
		s.n = o.MaxProds
	}
	s.terms = Terminals(o.Profile)
	for _, t := range s.terms {
		if t.Type != "String" {
			s.lits = append(s.lits, t)
		}
	}
	s.refs = RefTypes(o.Profile)
	s.declNull = make([]bool, s.n)
	for i := 1; i < s.n; i++ {
		s.declNull[i] = r.Chance(1, 10)
	}
	ptrRecv := make([]bool, s.n)
	for i := range ptrRecv {
		ptrRecv[i] = r.Chance(1, 3)
	}
	// Unions over non-nullable productions (index >= 1).
	if o.MoreUnions && s.n < 3 {
		s.n = 3 + r.Intn(2)
		if s.n > o.MaxProds {
			s.n = o.MaxProds
		}
		s.declNull = make([]bool, s.n)
		ptrRecv = make([]bool, s.n)
		for i := range ptrRecv {
			ptrRecv[i] = r.Chance(1, 3)
		}
	}
	if o.Unions && s.n >= 3 && (o.MoreUnions || r.Chance(1, 2)) {
		nu := 1 + r.Intn(2)
		for ui := 0; ui < nu; ui++ {
			var cand []int
			for i := 1; i < s.n; i++ {
				if !s.declNull[i] {
					cand = append(cand, i)
				}
			}
			if len(cand) < 2 {
				break
			}
			perm := r.Perm(len(cand))
			k := 2 + r.Intn(2)
			if k > len(cand) {
				k = len(cand)
			}
			u := &Union{Name: uname(id, ui)}
			min := s.n
			for _, pi := range perm[:k] {
				idx := cand[pi]
				m := Member{Prod: pname(id, idx), Ptr: r.Bool() || ptrRecv[idx]}
				u.Members = append(u.Members, m)
				if idx < min {
					min = idx
				}
			}
			s.unionMin[u.Name] = min
			s.g.Unions = append(s.g.Unions, u)
		}
	}
	s.g.Prods = make([]*Prod, s.n)
	for i := s.n - 1; i >= 0; i-- {
		p := &Prod{Name: pname(id, i), PosStyle: r.Weighted(1, 4, 2, 2, 1), PtrRecv: ptrRecv[i], ParserKV: r.Chance(1, 3)}
		if o.ForcePos {
			// mostly all three fields; sometimes only one or two of them (each is filled in on its own)
			p.PosStyle = []int{1, 2, 3, 1, 2, 3, 1, 5, 6, 7}[r.Intn(10)]
		}
		pc := &prodGen{s: s, idx: i, budget: o.Budget}
		e := pc.alt(o.Depth, false)
		if !s.declNull[i] && pc.nullable(e) {
			e = pc.ensureConsuming(e)
		}
		if e.Op == "alt" && false {
			_ = e
		}
		if o.WholeBody && (e.Op == "seq" || e.Op == "alt") && r.Chance(1, 4) {
			// the whole body of the production is one modified group
			if pc.nullable(e) {
				e = pc.ensureConsuming(e)
			}
			e = &Expr{Op: "grp", Mode: "+", Kids: []*Expr{e}}
			if s.declNull[i] && r.Bool() {
				e.Mode = r.Pick("*", "?")
				e.Brack = r.Bool()
			}
		}
		if i == 0 && r.Intn(10) < o.CatchAll {
			// ( body )? @( any token )* : an abandoned body leaves an alternative successful reading
			var alts []*Expr
			for _, t := range s.refs {
				alts = append(alts, &Expr{Op: "ref", Typ: t})
			}
			if o.Profile == ProfDefault || o.Profile == ProfScanCfg {
				for _, l := range []string{"(", ")", ",", ";", "+", "-"} {
					alts = append(alts, &Expr{Op: "lit", Text: l})
				}
			}
			tail := &Expr{Op: "grp", Mode: "*", Kids: []*Expr{{Op: "cap", Kids: []*Expr{{Op: "grp", Kids: []*Expr{{Op: "alt", Kids: alts}}}}}}}
			body := e
			if body.Op == "alt" || body.Op == "seq" {
				body = &Expr{Op: "grp", Mode: "?", Kids: []*Expr{body}}
			} else {
				body = &Expr{Op: "grp", Mode: "?", Kids: []*Expr{{Op: "grp", Kids: []*Expr{body}}}}
			}
			e = &Expr{Op: "seq", Kids: []*Expr{body, tail}}
		}
		p.Expr = e
		s.g.Prods[i] = p
		pc.assignFields(p)
	}
	s.g.Root = pname(id, 0)
	return s.g
}

type prodGen struct {
	s      *genState
	idx    int
	budget int
	loop   int // nesting depth of repetition bodies being generated
}

func (pc *prodGen) nullable(e *Expr) bool {
	switch e.Op {
	case "lit":
		return e.Text == ""
	case "ref":
		return e.Typ == "EOF"
	case "neg":
		return false
	case "look":
		return true
	case "cap":
		return pc.nullable(e.Kids[0])
	case "sub":
		// Typ temporarily holds the target until fields are assigned.
		if t, ok := pc.s.prodIndex(e.Typ); ok {
			return pc.s.declNull[t]
		}
		return false // unions only have non-nullable members
	case "seq":
		for _, k := range e.Kids {
			if !pc.nullable(k) {
				return false
			}
		}
		return true
	case "alt":
		for _, k := range e.Kids {
			if pc.nullable(k) {
				return true
			}
		}
		return false
	case "grp":
		if e.Mode == "?" || e.Mode == "*" {
			return true
		}
		return pc.nullable(e.Kids[0])
	}
	return true
}

func (s *genState) prodIndex(name string) (int, bool) {
	for i := 0; i < s.n; i++ {
		if pname(s.g.ID, i) == name {
			return i, true
		}
	}
	return 0, false
}

func (pc *prodGen) lit() *Expr {
	r := pc.s.r
	t := pc.s.lits[r.Intn(len(pc.s.lits))]
	e := &Expr{Op: "lit", Text: t.Text, Single: r.Chance(1, 3)}
	if pc.s.o.OddLits && r.Chance(1, 6) {
		e.Text = r.Pick("\"", "\\", "\u00e9\u4e16", "a b", "'", "\t", "a\"b", "\\n", "<", "|", "~", "\n", "x\ny", "\x00", "\u2028", "%", "%d", "%%", "100%s", "%!", "{{.}}", "$1")
		e.Single = false
		return e
	}
	if (pc.s.o.Profile != ProfDefault && pc.s.o.Profile != ProfScanCfg) || t.Type != "" {
		switch r.Intn(8) {
		case 0:
			if t.Type != "" {
				e.Typ = t.Type
			}
		case 1: // a type constraint that competes with the token's real type
			e.Typ = pc.s.refs[r.Intn(len(pc.s.refs))]
		}
	}
	if t.Type == "Kw" && r.Bool() {
		e.Text = r.Pick("select", "from", "SELECT", "From")
	}
	return e
}

func (pc *prodGen) ref() *Expr {
	r := pc.s.r
	if pc.s.o.NamesElided && pc.s.o.Profile == ProfStateful && r.Chance(1, 4) {
		return &Expr{Op: "ref", Typ: r.Pick("WS", "Comment")}
	}
	return &Expr{Op: "ref", Typ: pc.s.refs[r.Intn(len(pc.s.refs))]}
}

func (pc *prodGen) ensureConsuming(e *Expr) *Expr {
	l := pc.lit()
	if e.Op == "seq" {
		e.Kids = append(e.Kids, l)
		return e
	}
	if e.Op == "alt" {
		e = &Expr{Op: "grp", Kids: []*Expr{e}}
	}
	return &Expr{Op: "seq", Kids: []*Expr{e, l}}
}

// alt generates an expression at alternation level.
func (pc *prodGen) alt(depth int, consumed bool) *Expr {
	r := pc.s.r
	if depth > 0 && pc.budget > 4 && r.Chance(4, 10) {
		n := 2 + r.Weighted(3, 1)
		a := &Expr{Op: "alt"}
		var prev *Expr
		for i := 0; i < n; i++ {
			var k *Expr
			if prev != nil && r.Intn(10) < pc.s.o.SharePrefix {
				k = pc.vary(prev, depth-1, consumed)
			} else {
				k = pc.seq(depth-1, consumed)
			}
			if pc.nullable(k) {
				k = pc.ensureConsuming(k)
			}
			if pc.s.o.NamesElided && pc.s.o.Profile == ProfStateful && r.Chance(1, 6) {
				// an alternative that consists of nothing but an explicitly named elided token
				k = &Expr{Op: "ref", Typ: r.Pick("WS", "Comment")}
				if r.Bool() {
					// ... or a bare literal only a token of an elided type can match (the texts are the
					// ones Render writes between tokens), with and without the type constraint
					if r.Bool() {
						k = &Expr{Op: "lit", Text: r.Pick("# c", "# c x", "# c a b"), Typ: r.Pick("", "Comment")}
					} else {
						k = &Expr{Op: "lit", Text: r.Pick(" ", "\n", "  "), Typ: r.Pick("", "WS")}
					}
				}
			}
			a.Kids = append(a.Kids, k)
			prev = k
		}
		if pc.s.o.EOFRefs && pc.loop == 0 && r.Chance(1, 5) {
			a.Kids = append(a.Kids, &Expr{Op: "ref", Typ: "EOF"})
		}
		return a
	}
	return pc.seq(depth, consumed)
}

// vary returns a copy of e (a sequence or term) that shares a prefix with it
// and then differs: the classic shape that makes the parser enter a branch,
// capture, fail, and succeed in the next one.
func (pc *prodGen) vary(e *Expr, depth int, consumed bool) *Expr {
	r := pc.s.r
	c := clone(e)
	var kids []*Expr
	if c.Op == "seq" {
		kids = c.Kids
	} else {
		kids = []*Expr{c}
	}
	cons := func(n int) bool {
		c := consumed
		for _, k := range kids[:n] {
			if !pc.nullable(k) {
				c = true
			}
		}
		return c
	}
	switch r.Intn(4) {
	case 0: // replace the last term
		kids[len(kids)-1] = pc.term(depth, cons(len(kids)-1))
	case 1: // append a term
		kids = append(kids, pc.term(depth, cons(len(kids))))
	case 2: // drop the last term, add another
		if len(kids) > 1 {
			kids = kids[:len(kids)-1]
		}
		kids = append(kids, pc.term(depth, cons(len(kids))))
	default: // cut at a random point and continue differently
		p := 1 + r.Intn(len(kids))
		kids = append(kids[:p:p], pc.term(depth, cons(p)))
	}
	var flat []*Expr
	for _, k := range kids {
		if k.Op == "seq" {
			flat = append(flat, k.Kids...)
		} else {
			flat = append(flat, k)
		}
	}
	kids = flat
	if len(kids) == 1 {
		return kids[0]
	}
	return &Expr{Op: "seq", Kids: kids}
}

func clone(e *Expr) *Expr {
	c := *e
	c.Kids = nil
	for _, k := range e.Kids {
		c.Kids = append(c.Kids, clone(k))
	}
	return &c
}

func (pc *prodGen) seq(depth int, consumed bool) *Expr {
	r := pc.s.r
	n := 1 + r.Weighted(2, 4, 3, 2)
	if pc.budget < 3 {
		n = 1
	}
	var kids []*Expr
	c := consumed
	for i := 0; i < n; i++ {
		t := pc.term(depth, c)
		if t.Op == "seq" {
			kids = append(kids, t.Kids...)
		} else {
			kids = append(kids, t)
		}
		if !pc.nullable(t) {
			c = true
		}
	}
	if len(kids) == 1 {
		return kids[0]
	}
	return &Expr{Op: "seq", Kids: kids}
}

// capturable returns an expression legal directly after '@' (no nested captures).
func (pc *prodGen) capturable(depth int) *Expr {
	r := pc.s.r
	switch r.Weighted(5, 6, 2, 1, 1, 1) {
	case 0:
		return pc.lit()
	case 1:
		return pc.ref()
	case 2: // ( a | b ) or ( a b )
		if depth <= 0 {
			return pc.ref()
		}
		return &Expr{Op: "grp", Kids: []*Expr{pc.plain(depth-1, true)}}
	case 3:
		if pc.s.o.NoNegLook {
			return pc.lit()
		}
		return &Expr{Op: "neg", Kids: []*Expr{pc.negOperand()}}
	case 4: // @[ x ]  (may capture nothing)
		return &Expr{Op: "grp", Mode: "?", Brack: true, Kids: []*Expr{pc.plainTerm()}}
	default: // @{ x }
		return &Expr{Op: "grp", Mode: "*", Brack: true, Kids: []*Expr{pc.plainTerm()}}
	}
}

func (pc *prodGen) negOperand() *Expr {
	r := pc.s.r
	switch r.Intn(4) {
	case 0:
		return pc.ref()
	case 1:
		return &Expr{Op: "grp", Kids: []*Expr{{Op: "alt", Kids: []*Expr{pc.lit(), pc.lit()}}}}
	default:
		return pc.lit()
	}
}

func (pc *prodGen) plainTerm() *Expr {
	if pc.s.r.Bool() {
		return pc.lit()
	}
	return pc.ref()
}

// plain generates a capture-free expression (used under '@').
func (pc *prodGen) plain(depth int, allowAlt bool) *Expr {
	r := pc.s.r
	pc.budget -= 2
	if allowAlt && r.Chance(1, 2) {
		n := 2 + r.Intn(2)
		a := &Expr{Op: "alt"}
		for i := 0; i < n; i++ {
			a.Kids = append(a.Kids, pc.plainSeq(depth))
		}
		return a
	}
	return pc.plainSeq(depth)
}

func (pc *prodGen) plainSeq(depth int) *Expr {
	r := pc.s.r
	if r.Chance(1, 4) {
		// a repeated multi-term group inside the capture: @( ( Ident "," )* Ident? ); its last
		// iteration can fail part-way, and nothing of it may reach the captured value
		loop := &Expr{Op: "grp", Mode: r.Pick("*", "+", "*"), Kids: []*Expr{{Op: "seq", Kids: []*Expr{pc.plainTerm(), pc.plainTerm()}}}}
		if r.Bool() {
			return &Expr{Op: "seq", Kids: []*Expr{loop, {Op: "grp", Mode: "?", Kids: []*Expr{pc.plainTerm()}}}}
		}
		return loop
	}
	n := 1 + r.Weighted(3, 2, 1)
	var kids []*Expr
	for i := 0; i < n; i++ {
		t := pc.plainTerm()
		if (i > 0 || n == 1) && r.Chance(1, 4) {
			t = &Expr{Op: "grp", Mode: r.Pick("?", "*", "+"), Kids: []*Expr{t}}
		}
		kids = append(kids, t)
	}
	if len(kids) == 1 {
		return kids[0]
	}
	return &Expr{Op: "seq", Kids: kids}
}

func (pc *prodGen) subTarget(consumed bool) string {
	s := pc.s
	r := s.r
	var cand []string
	if s.o.AllowLeftRec {
		consumed = true
	}
	for i := 0; i < s.n; i++ {
		if consumed || i > pc.idx {
			cand = append(cand, pname(s.g.ID, i))
			if i > pc.idx { // prefer forward references (keeps most productions reachable)
				cand = append(cand, pname(s.g.ID, i))
			}
		}
	}
	for _, u := range s.g.Unions {
		if consumed || s.unionMin[u.Name] > pc.idx {
			cand = append(cand, u.Name, u.Name)
			if s.o.MoreUnions {
				cand = append(cand, u.Name, u.Name, u.Name)
			}
		}
	}
	if len(cand) == 0 {
		return ""
	}
	return cand[r.Intn(len(cand))]
}

func (pc *prodGen) term(depth int, consumed bool) *Expr {
	r := pc.s.r
	o := pc.s.o
	pc.budget--
	if pc.budget <= 0 || depth <= 0 {
		switch r.Weighted(3, 2, o.CaptureBias, o.SubBias) {
		case 0:
			return pc.lit()
		case 1:
			return pc.ref()
		case 2:
			return &Expr{Op: "cap", Kids: []*Expr{pc.plainTerm()}}
		default:
			if t := pc.subTarget(consumed); t != "" {
				return &Expr{Op: "sub", Typ: t}
			}
			return &Expr{Op: "cap", Kids: []*Expr{pc.ref()}}
		}
	}
	wNeg, wLook := 2, 2
	if o.NoNegLook {
		wNeg, wLook = 0, 0
	}
	switch r.Weighted(4, 3, 2+o.CaptureBias, o.SubBias, 6, 2, wNeg, wLook) {
	case 0:
		return pc.lit()
	case 1:
		return pc.ref()
	case 2:
		return &Expr{Op: "cap", Kids: []*Expr{pc.capturable(depth - 1)}}
	case 3:
		if t := pc.subTarget(consumed); t != "" {
			return &Expr{Op: "sub", Typ: t}
		}
		return &Expr{Op: "cap", Kids: []*Expr{pc.ref()}}
	case 4: // group with a modifier
		mode := r.Pick("?", "*", "+", "?", "*")
		if o.AllowBang && r.Chance(1, 8) {
			mode = "!"
		}
		var body *Expr
		if mode == "*" || mode == "+" {
			pc.loop++
		}
		if r.Chance(1, 3) {
			// modifier on a single term: @x*, "a"+, @@?
			body = pc.term(depth-1, consumed)
			if body.Op == "look" {
				body = pc.lit()
			}
		} else {
			body = pc.alt(depth-1, consumed)
		}
		if mode == "*" || mode == "+" {
			pc.loop--
		}
		if mode == "!" {
			// typical use: a group of optionals that must not all be absent
			a := &Expr{Op: "grp", Mode: "?", Kids: []*Expr{pc.term(depth-1, consumed)}}
			b := &Expr{Op: "grp", Mode: "?", Kids: []*Expr{pc.term(depth-1, consumed)}}
			if a.Kids[0].Op == "look" {
				a.Kids[0] = pc.lit()
			}
			if b.Kids[0].Op == "look" {
				b.Kids[0] = pc.lit()
			}
			return &Expr{Op: "grp", Mode: "!", Kids: []*Expr{{Op: "seq", Kids: []*Expr{a, b}}}}
		}
		if (mode == "*" || mode == "+") && pc.nullable(body) {
			body = pc.ensureConsuming(body)
		}
		if mode == "?" && pc.nullable(body) && !r.Chance(1, 5) {
			body = pc.ensureConsuming(body)
		}
		g := &Expr{Op: "grp", Mode: mode, Kids: []*Expr{body}}
		if (mode == "?" || mode == "*") && r.Chance(1, 4) {
			g.Brack = true
		}
		return g
	case 5: // plain parenthesised group
		return &Expr{Op: "grp", Kids: []*Expr{pc.alt(depth-1, consumed)}}
	case 6:
		return &Expr{Op: "neg", Kids: []*Expr{pc.negOperandRich(depth - 1)}}
	default:
		return &Expr{Op: "look", Negative: r.Bool(), Kids: []*Expr{pc.alt(depth-1, consumed)}}
	}
}

// negOperandRich may contain captures and @@ (their effects must be discarded).
func (pc *prodGen) negOperandRich(depth int) *Expr {
	r := pc.s.r
	switch r.Intn(5) {
	case 0:
		return pc.ref()
	case 1:
		if depth > 0 {
			return &Expr{Op: "grp", Kids: []*Expr{pc.alt(depth-1, false)}}
		}
		return pc.lit()
	case 2:
		return &Expr{Op: "cap", Kids: []*Expr{pc.plainTerm()}}
	default:
		return pc.lit()
	}
}

// captures lists the capture nodes in textual order.
func captures(e *Expr, out *[]*Expr) {
	if e.Op == "cap" || e.Op == "sub" {
		*out = append(*out, e)
		if e.Op == "cap" {
			return // no nested captures
		}
	}
	for _, k := range e.Kids {
		captures(k, out)
	}
}

func intable(e *Expr) bool {
	switch e.Op {
	case "ref":
		return e.Typ == "Int"
	case "grp":
		return e.Mode == "" && intable(e.Kids[0])
	case "seq":
		for _, k := range e.Kids {
			if !intable(k) {
				return false
			}
		}
		return len(e.Kids) <= 2
	}
	return false
}

func (s *genState) valReach(from, to int, seen map[int]bool) bool {
	if from == to {
		return true
	}
	if seen[from] {
		return false
	}
	seen[from] = true
	for _, n := range s.valEdge[from] {
		if s.valReach(n, to, seen) {
			return true
		}
	}
	return false
}

// assignFields partitions the captures (textual order) into fields and picks kinds.
func (pc *prodGen) assignFields(p *Prod) {
	r := pc.s.r
	o := pc.s.o
	var caps []*Expr
	captures(p.Expr, &caps)
	if len(caps) == 0 {
		// A struct needs a tagged field; add a capture so the field is not idle.
		c := &Expr{Op: "cap", Kids: []*Expr{pc.plainTerm()}}
		if p.Expr.Op == "seq" {
			p.Expr.Kids = append(p.Expr.Kids, c)
		} else {
			body := p.Expr
			if body.Op == "alt" {
				body = &Expr{Op: "grp", Kids: []*Expr{body}}
			}
			p.Expr = &Expr{Op: "seq", Kids: []*Expr{body, c}}
		}
		caps = []*Expr{c}
	}
	// runs
	type run struct {
		caps   []*Expr
		sub    bool
		target string
	}
	var runs []*run
	for _, c := range caps {
		sub := c.Op == "sub"
		tgt := ""
		if sub {
			tgt = c.Typ
			c.Typ = ""
		}
		if n := len(runs); n > 0 && runs[n-1].sub == sub && runs[n-1].target == tgt && r.Chance(4, 10) {
			runs[n-1].caps = append(runs[n-1].caps, c)
		} else {
			runs = append(runs, &run{caps: []*Expr{c}, sub: sub, target: tgt})
		}
	}
	p.Fields = make([]Field, len(runs))
	for fi, ru := range runs {
		for _, c := range ru.caps {
			c.Field = fi
		}
	}
	for fi, ru := range runs {
		w := writes(p.Expr, fi)
		f := Field{Name: fmt.Sprintf("F%d", fi)}
		if ru.sub {
			f.Target = ru.target
			_, isProd := pc.s.prodIndex(ru.target)
			switch {
			case !isProd && w <= 1:
				f.Kind = r.Pick("uni", "uni", "unis")
			case !isProd:
				f.Kind = "unis"
			case w <= 1:
				f.Kind = r.Pick("ptr", "ptr", "val", "ptrs", "vals")
			default:
				f.Kind = r.Pick("ptrs", "ptrs", "vals")
			}
			if f.Kind == "val" {
				ti, _ := pc.s.prodIndex(ru.target)
				if pc.s.valReach(ti, pc.idx, map[int]bool{}) {
					f.Kind = "ptr"
				} else {
					pc.s.valEdge[pc.idx] = append(pc.s.valEdge[pc.idx], ti)
				}
			}
		} else {
			if w <= 1 {
				kinds := []string{"string", "string", "strs", "bool"}
				if o.TokKinds && len(ru.caps) == 1 {
					kinds = append(kinds, "tok", "toks")
				}
				allInt := true
				for _, c := range ru.caps {
					if !intable(c.Kids[0]) {
						allInt = false
					}
				}
				if allInt && !o.NoInt {
					kinds = append(kinds, "int", "int")
				}
				f.Kind = kinds[r.Intn(len(kinds))]
			} else {
				f.Kind = r.Pick("string", "strs", "strs", "bool")
			}
			if o.CapTypes && f.Kind == "strs" && r.Bool() {
				f.Kind = "cstrs"
			}
			if o.TokMulti && w > 1 && r.Chance(1, 3) {
				// a []lexer.Token field written more than once: what it finally holds is left open by the
				// documentation (the evaluator marks the case unspecified), the node's own Tokens/Pos are not
				f.Kind = "toks"
			}
		}
		p.Fields[fi] = f
	}
}
