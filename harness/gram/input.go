package gram

import (
	"strings"

	"verifharness/mon"
)

// Sampler produces token strings for a grammar: sampled derivations, token
// edits of those, and soup over the grammar's own terminals.
type Sampler struct {
	g     *Grammar
	r     *mon.RNG
	terms []Term
	byTyp map[string][]string
	alpha []string // terminals the grammar mentions, plus one foreign token
}

// NewSampler prepares a sampler.
func NewSampler(g *Grammar, r *mon.RNG) *Sampler {
	s := &Sampler{g: g, r: r, terms: Terminals(g.Profile), byTyp: map[string][]string{}}
	for _, t := range s.terms {
		s.byTyp[t.Type] = append(s.byTyp[t.Type], t.Text)
	}
	seen := map[string]bool{}
	add := func(t string) {
		if t != "" && !seen[t] {
			seen[t] = true
			s.alpha = append(s.alpha, t)
		}
	}
	for _, p := range g.Prods {
		Walk(p.Expr, func(e *Expr) {
			switch e.Op {
			case "lit":
				add(e.Text)
			case "ref":
				if ts := s.byTyp[e.Typ]; len(ts) > 0 {
					add(ts[0])
					add(ts[len(ts)-1])
				}
			}
		})
	}
	add("y") // foreign (or at least rare) token
	if len(s.alpha) > 7 {
		s.alpha = s.alpha[:7]
	}
	return s
}

// Alphabet returns the (small) terminal alphabet used for soup and exhaustive inputs.
func (s *Sampler) Alphabet() []string { return s.alpha }

func (s *Sampler) anyTerm() string { return s.terms[s.r.Intn(len(s.terms))].Text }

func (s *Sampler) derive(p *Prod, e *Expr, depth int, out *[]string) {
	r := s.r
	if len(*out) > 40 {
		return
	}
	switch e.Op {
	case "lit":
		t := e.Text
		if e.Typ == "Kw" || isKw(t) {
			if r.Chance(1, 3) {
				t = strings.ToUpper(t)
			}
		}
		*out = append(*out, t)
	case "ref":
		if ts := s.byTyp[e.Typ]; len(ts) > 0 {
			*out = append(*out, ts[r.Intn(len(ts))])
		}
	case "seq":
		for _, k := range e.Kids {
			s.derive(p, k, depth, out)
		}
	case "alt":
		s.derive(p, e.Kids[r.Intn(len(e.Kids))], depth, out)
	case "cap":
		s.derive(p, e.Kids[0], depth, out)
	case "sub":
		if depth <= 0 {
			return
		}
		s.deriveTarget(p.Fields[e.Field].Target, depth-1, out)
	case "neg":
		*out = append(*out, s.anyTerm())
	case "look":
		// consumes nothing; sometimes make the following tokens agree with it
	case "grp":
		n := 1
		switch e.Mode {
		case "?":
			n = r.Intn(2)
		case "*":
			n = r.Weighted(3, 3, 2, 1)
		case "+":
			n = 1 + r.Weighted(3, 2, 1)
		}
		if depth <= 0 && n > 1 {
			n = 1
		}
		for i := 0; i < n; i++ {
			s.derive(p, e.Kids[0], depth, out)
		}
	}
}

func isKw(t string) bool {
	l := strings.ToLower(t)
	return l == "select" || l == "from"
}

func (s *Sampler) deriveTarget(name string, depth int, out *[]string) {
	if u := s.g.Union(name); u != nil {
		m := u.Members[s.r.Intn(len(u.Members))]
		s.deriveTarget(m.Prod, depth, out)
		return
	}
	q := s.g.Prod(name)
	s.derive(q, q.Expr, depth, out)
}

// Derivation samples a token string the grammar is likely to accept.
func (s *Sampler) Derivation() []string {
	var out []string
	s.deriveTarget(s.g.Root, 4, &out)
	return out
}

// Mutate applies one or two token edits (delete, insert, replace, swap, truncate).
func (s *Sampler) Mutate(in []string) []string {
	out := append([]string{}, in...)
	n := 1 + s.r.Intn(2)
	for i := 0; i < n; i++ {
		switch s.r.Intn(6) {
		case 0:
			if len(out) > 0 {
				p := s.r.Intn(len(out))
				out = append(out[:p], out[p+1:]...)
			}
		case 1:
			p := s.r.Intn(len(out) + 1)
			out = append(out[:p], append([]string{s.pick()}, out[p:]...)...)
		case 2:
			if len(out) > 0 {
				out[s.r.Intn(len(out))] = s.pick()
			}
		case 3:
			if len(out) > 1 {
				p := s.r.Intn(len(out) - 1)
				out[p], out[p+1] = out[p+1], out[p]
			}
		case 4:
			if len(out) > 0 {
				out = out[:s.r.Intn(len(out))]
			}
		default:
			out = append(out, s.pick())
		}
	}
	return out
}

func (s *Sampler) pick() string {
	if s.r.Chance(3, 4) {
		return s.alpha[s.r.Intn(len(s.alpha))]
	}
	return s.anyTerm()
}

// Soup returns a random token string over the grammar's alphabet.
func (s *Sampler) Soup(n int) []string {
	out := make([]string, n)
	for i := range out {
		out[i] = s.pick()
	}
	return out
}

// Inputs returns a fixed-size list of token strings: derivations, edits, soup.
func (s *Sampler) Inputs(n int) [][]string {
	var out [][]string
	seen := map[string]bool{}
	add := func(t []string) {
		k := strings.Join(t, "\x00")
		if !seen[k] {
			seen[k] = true
			out = append(out, t)
		}
	}
	add(nil)
	for tries := 0; len(out) < n && tries < 6*n; tries++ {
		switch s.r.Intn(10) {
		case 0, 1, 2:
			add(s.Derivation())
		case 3, 4, 5, 6, 7:
			add(s.Mutate(s.Derivation()))
		case 8:
			add(s.Soup(s.r.Range(1, 7)))
		default:
			add(s.Mutate(s.Mutate(s.Derivation())))
		}
	}
	return out
}

// Exhaustive enumerates all token strings up to length maxLen over the first
// k symbols of the alphabet.
func (s *Sampler) Exhaustive(k, maxLen int, f func([]string)) int {
	a := s.alpha
	if len(a) > k {
		a = a[:k]
	}
	count := 0
	var rec func(prefix []string)
	rec = func(prefix []string) {
		f(prefix)
		count++
		if len(prefix) == maxLen {
			return
		}
		for _, t := range a {
			rec(append(prefix[:len(prefix):len(prefix)], t))
		}
	}
	rec(nil)
	return count
}
