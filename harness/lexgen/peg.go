package lexgen

import (
	"regexp/syntax"
	"unicode"
	"unicode/utf8"
)

// PEG model of the matchers emitted by the lexer generator (DESIGN.md 3.2.4):
// the README documents exactly one difference between generated and runtime
// lexers - generated matchers never give characters back. This interpreter is
// the executable statement of that: possessive * + ?, commit-on-first-success
// alternation; everything else (rune decoding, classes, anchors seeing only
// the text remaining at the token start) as Go's regexp.

// PegResult is the outcome of matching one rule at one offset.
type PegResult struct {
	End int // -1: no match
	// EmptyIteration is set when a repetition body completed an iteration
	// without consuming: the one situation in which a possessive loop that
	// is emitted as "repeat until the body fails" has no exit.
	EmptyIteration bool
}

type pegState struct {
	s     string
	empty bool
	steps int
}

// PegMatch matches the simplified syntax tree against s (the text remaining
// at the token start) from offset 0.
func PegMatch(re *syntax.Regexp, s string) PegResult {
	st := &pegState{s: s}
	end := st.match(re, 0)
	return PegResult{End: end, EmptyIteration: st.empty}
}

func foldEq(a, b rune) bool {
	if a == b {
		return true
	}
	for r := unicode.SimpleFold(a); r != a; r = unicode.SimpleFold(r) {
		if r == b {
			return true
		}
	}
	return false
}

func (st *pegState) match(re *syntax.Regexp, p int) int {
	st.steps++
	s := st.s
	switch re.Op {
	case syntax.OpNoMatch:
		return -1
	case syntax.OpEmptyMatch:
		return p
	case syntax.OpLiteral:
		for _, want := range re.Rune {
			if p >= len(s) {
				return -1
			}
			r, w := utf8.DecodeRuneInString(s[p:])
			if re.Flags&syntax.FoldCase != 0 {
				if !foldEq(want, r) {
					return -1
				}
			} else if r != want {
				return -1
			}
			p += w
		}
		return p
	case syntax.OpCharClass:
		if p >= len(s) {
			return -1
		}
		r, w := utf8.DecodeRuneInString(s[p:])
		for i := 0; i+1 < len(re.Rune); i += 2 {
			if r >= re.Rune[i] && r <= re.Rune[i+1] {
				return p + w
			}
		}
		return -1
	case syntax.OpAnyCharNotNL:
		if p >= len(s) {
			return -1
		}
		r, w := utf8.DecodeRuneInString(s[p:])
		if r == '\n' {
			return -1
		}
		return p + w
	case syntax.OpAnyChar:
		if p >= len(s) {
			return -1
		}
		_, w := utf8.DecodeRuneInString(s[p:])
		return p + w
	case syntax.OpBeginLine, syntax.OpEndLine, syntax.OpBeginText, syntax.OpEndText, syntax.OpWordBoundary, syntax.OpNoWordBoundary:
		var before, after rune = -1, -1
		if p > 0 {
			before, _ = utf8.DecodeLastRuneInString(s[:p])
		}
		if p < len(s) {
			after, _ = utf8.DecodeRuneInString(s[p:])
		}
		ctx := syntax.EmptyOpContext(before, after)
		var need syntax.EmptyOp
		switch re.Op {
		case syntax.OpBeginLine:
			need = syntax.EmptyBeginLine
		case syntax.OpEndLine:
			need = syntax.EmptyEndLine
		case syntax.OpBeginText:
			need = syntax.EmptyBeginText
		case syntax.OpEndText:
			need = syntax.EmptyEndText
		case syntax.OpWordBoundary:
			need = syntax.EmptyWordBoundary
		case syntax.OpNoWordBoundary:
			need = syntax.EmptyNoWordBoundary
		}
		if ctx&need != 0 {
			return p
		}
		return -1
	case syntax.OpCapture:
		return st.match(re.Sub[0], p)
	case syntax.OpStar, syntax.OpPlus:
		if re.Op == syntax.OpPlus {
			p = st.match(re.Sub[0], p)
			if p == -1 {
				return -1
			}
		}
		for {
			np := st.match(re.Sub[0], p)
			if np == -1 {
				return p
			}
			if np == p {
				st.empty = true
				return p
			}
			p = np
			if st.steps > 2000000 {
				return p
			}
		}
	case syntax.OpQuest:
		if np := st.match(re.Sub[0], p); np != -1 {
			return np
		}
		return p
	case syntax.OpRepeat:
		// Simplify() removes counted repetition; treated possessively if met.
		n := 0
		for re.Max < 0 || n < re.Max {
			np := st.match(re.Sub[0], p)
			if np == -1 || np == p {
				break
			}
			p = np
			n++
		}
		if n < re.Min {
			return -1
		}
		return p
	case syntax.OpConcat:
		for _, sub := range re.Sub {
			p = st.match(sub, p)
			if p == -1 {
				return -1
			}
		}
		return p
	case syntax.OpAlternate:
		for _, sub := range re.Sub {
			if np := st.match(sub, p); np != -1 {
				return np
			}
		}
		return -1
	}
	return -1
}

// OpsOf lists the regexp/syntax operators of a simplified tree.
func OpsOf(re *syntax.Regexp, set map[string]bool) {
	set[re.Op.String()] = true
	if re.Op == syntax.OpLiteral && re.Flags&syntax.FoldCase != 0 {
		set["Literal(fold)"] = true
	}
	for _, r := range re.Rune {
		if r > 0x7f && (re.Op == syntax.OpLiteral || re.Op == syntax.OpCharClass) {
			set[re.Op.String()+"(multibyte)"] = true
			break
		}
	}
	for _, sub := range re.Sub {
		OpsOf(sub, set)
	}
}
