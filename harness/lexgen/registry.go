package lexgen

import "github.com/alecthomas/participle/v2/lexer"

// Generated holds the lexer definitions emitted by `participle gen lexer`
// that were compiled into this binary, keyed by rule-map index.
var Generated = map[int]lexer.Definition{}

// GeneratedOrder lists the indices in registration order.
var GeneratedOrder []int

// RegGenerated registers a compiled generated lexer.
func RegGenerated(i int, def lexer.Definition) {
	Generated[i] = def
	GeneratedOrder = append(GeneratedOrder, i)
}
