package lexgen

import (
	"fmt"
	"regexp"
	"strings"
	"unicode/utf8"
)

// Reference stateful lexer: an independent implementation of the documented
// rules (property C03), structured as "state stack + first rule that matches
// the remaining input as a text of its own". Trusted base: Go's regexp and
// regexp.QuoteMeta.

// RefTok is one reference token.
type RefTok struct {
	Name   string
	Text   string
	Offset int
}

// RefResult is the outcome of reference lexing.
type RefResult struct {
	Toks []RefTok
	// ErrOffset >= 0 when lexing stops with an error at that offset.
	ErrOffset int
	ErrWhy    string
	// Undefined is set when the input drives the rules outside what the
	// property defines (Pop or Return with only the initial state on the stack).
	Undefined    bool
	UndefinedWhy string
	// Coverage features observed while lexing.
	MaxDepth      int
	Returns       int
	BackrefUses   int
	BackrefMeta   int // back-referenced text contained regex metacharacters
	ElidedTokens  int
	OrderDecided  int // a later rule of the state would also have matched (order decided), or matched longer
	LongerLater   int
	IncludedRule  int // chosen rule came from an included state
	AnchorAtOff   int // chosen/consulted rule has an anchor or word boundary and offset > 0
	EvenBackslash bool
	NonParticip   int // pushing rule had a non-participating group
}

type refFrame struct {
	state  string
	groups []string
}

// substitute replaces \N (odd run of backslashes before a digit) by the quoted
// N-th group. ok=false when a group is missing.
func substitute(pattern string, groups []string) (out string, used int, missing bool, evenSeen bool) {
	var sb strings.Builder
	i := 0
	for i < len(pattern) {
		if pattern[i] != '\\' {
			sb.WriteByte(pattern[i])
			i++
			continue
		}
		j := i
		for j < len(pattern) && pattern[j] == '\\' {
			j++
		}
		n := j - i
		if j < len(pattern) && pattern[j] >= '0' && pattern[j] <= '9' {
			if n%2 == 1 {
				sb.WriteString(pattern[i : j-1])
				g := int(pattern[j] - '0')
				if g >= len(groups) {
					missing = true
				} else {
					sb.WriteString(regexp.QuoteMeta(groups[g]))
					used++
				}
				i = j + 1
				continue
			}
			evenSeen = true
		}
		sb.WriteString(pattern[i:j])
		i = j
	}
	return sb.String(), used, missing, evenSeen
}

// HasBackref reports whether the pattern contains a back-reference.
func HasBackref(pattern string) bool {
	_, used, missing, _ := substitute(pattern, []string{"", "", "", "", "", "", "", "", "", ""})
	return used > 0 || missing
}

func compileAt(pattern string, groups []string) (*regexp.Regexp, error) {
	p, _, missing, _ := substitute(pattern, groups)
	if missing {
		return nil, fmt.Errorf("missing group")
	}
	return regexp.Compile(`\A(?:` + p + `)`)
}

var anchorRe = regexp.MustCompile(`\\b|\\B|\^|\$`)

// RefLex lexes input with the generated map according to the documented rules.
func RefLex(g *GMap, input string) *RefResult {
	res := &RefResult{ErrOffset: -1}
	stack := []refFrame{{state: "Root"}}
	off := 0
	cache := map[string]*regexp.Regexp{}
	rulesCache := map[string][]GRule{}
	includedFrom := map[string]map[int]bool{}
	expand := func(st string) []GRule {
		if rs, ok := rulesCache[st]; ok {
			return rs
		}
		rs := g.Expand(st)
		rulesCache[st] = rs
		// which expanded indices come from includes
		inc := map[int]bool{}
		idx := 0
		for _, r := range g.Rules[st] {
			if r.Action == "include" {
				n := len(g.expand(r.Target, 1))
				for k := 0; k < n; k++ {
					inc[idx+k] = true
				}
				idx += n
			} else {
				idx++
			}
		}
		includedFrom[st] = inc
		return rs
	}
	for {
		if len(stack) > res.MaxDepth {
			res.MaxDepth = len(stack)
		}
		if off == len(input) {
			return res
		}
		top := stack[len(stack)-1]
		rules := expand(top.state)
		rest := input[off:]
		selected := -1
		var m []int
		returned := false
		for i, r := range rules {
			if r.Action == "return" {
				if len(stack) == 1 {
					res.Undefined, res.UndefinedWhy = true, "Return with only the initial state on the stack"
					return res
				}
				stack = stack[:len(stack)-1]
				res.Returns++
				returned = true
				break
			}
			pat, used, missing, even := substitute(r.Pattern, top.groups)
			if even && (used > 0 || missing) {
				res.EvenBackslash = true
			}
			if missing {
				res.ErrOffset, res.ErrWhy = off, fmt.Sprintf("rule %s: back-reference to a group the entering rule did not capture", r.Name)
				return res
			}
			re, ok := cache[pat]
			if !ok {
				var err error
				re, err = regexp.Compile(`\A(?:` + pat + `)`)
				if err != nil {
					res.ErrOffset, res.ErrWhy = off, "substituted pattern does not compile: "+err.Error()
					res.Undefined, res.UndefinedWhy = true, "back-reference substitution yields an invalid pattern"
					return res
				}
				cache[pat] = re
			}
			if off > 0 && anchorRe.MatchString(r.Pattern) {
				res.AnchorAtOff++
			}
			mm := re.FindStringSubmatchIndex(rest)
			if mm != nil {
				selected, m = i, mm
				if used > 0 {
					res.BackrefUses++
					for _, gtxt := range top.groups {
						if regexp.QuoteMeta(gtxt) != gtxt {
							res.BackrefMeta++
							break
						}
					}
				}
				break
			}
		}
		if returned {
			continue
		}
		if selected < 0 {
			res.ErrOffset, res.ErrWhy = off, "no rule of state "+top.state+" matches"
			return res
		}
		ru := rules[selected]
		if m[1] == 0 {
			res.ErrOffset, res.ErrWhy = off, "rule "+ru.Name+" matched the empty string"
			return res
		}
		// coverage: would a later rule have matched too / longer?
		for j := selected + 1; j < len(rules) && j < selected+6; j++ {
			r2 := rules[j]
			if r2.Action == "return" {
				break
			}
			pat, _, missing, _ := substitute(r2.Pattern, top.groups)
			if missing {
				continue
			}
			re, ok := cache[pat]
			if !ok {
				var err error
				re, err = regexp.Compile(`\A(?:` + pat + `)`)
				if err != nil {
					continue
				}
				cache[pat] = re
			}
			if m2 := re.FindStringIndex(rest); m2 != nil {
				res.OrderDecided++
				if m2[1] > m[1] {
					res.LongerLater++
				}
				break
			}
		}
		if includedFrom[top.state][selected] {
			res.IncludedRule++
		}
		text := rest[:m[1]]
		switch ru.Action {
		case "push":
			groups := make([]string, len(m)/2)
			for k := range groups {
				if m[2*k] >= 0 {
					groups[k] = rest[m[2*k]:m[2*k+1]]
				} else {
					res.NonParticip++
				}
			}
			stack = append(stack, refFrame{ru.Target, groups})
		case "pop":
			if len(stack) == 1 {
				res.Undefined, res.UndefinedWhy = true, "Pop with only the initial state on the stack"
				return res
			}
			stack = stack[:len(stack)-1]
		}
		if Elided(ru.Name) {
			res.ElidedTokens++
		} else {
			res.Toks = append(res.Toks, RefTok{Name: ru.Name, Text: text, Offset: off})
		}
		off += m[1]
	}
}

// LineCol computes the position oracle of C04 from the input alone:
// line = 1 + newlines before off, column = 1 + characters since the last newline.
func LineCol(input string, off int) (line, col int) {
	if off > len(input) {
		off = len(input)
	}
	pre := input[:off]
	line = 1 + strings.Count(pre, "\n")
	last := strings.LastIndexByte(pre, '\n')
	col = 1 + utf8.RuneCountInString(pre[last+1:])
	return
}
