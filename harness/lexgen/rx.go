// Package lexgen generates lexer rule maps and inputs, and holds the reference
// stateful lexer, the position oracle and the PEG model of generated matchers.
package lexgen

import (
	"regexp"
	"strconv"
	"strings"
	"unicode"

	"verifharness/mon"
)

// RX is a generated regular-expression syntax tree. Patterns are always
// printed from such a tree, so they are valid by construction and their
// alphabet is known to the input sampler.
type RX struct {
	Op   string // lit class any anys cap grp star plus quest rep alt cat bol eol wb nwb fold perl backref
	Kids []*RX
	Lit  string // lit: literal text; perl: one of \w \d \s \W \D \S
	Set  []rune // class: pairs lo,hi
	Neg  bool   // class negated
	Min  int    // rep
	Max  int    // rep (-1 = unbounded)
	N    int    // backref group number
}

// Alphabets.
var (
	// AlphaBasic are characters that appear in literals and classes.
	AlphaBasic = []rune("abcxyzks01_ -+()[].*$^|\\\"'/<>{}\n\t\u00e9\u4e16\x01\a\x7f\U0001F600")
	// AlphaPlain excludes regex metacharacters.
	AlphaPlain = []rune("abcxyzks01_ ")
	// AlphaInput additionally holds characters no rule mentions, fold partners and CR.
	AlphaInput = []rune("abcxyzksABCKS012_ -+()[].*$^|\\\"'/<>{}\n\t\r\u00e9\u4e16\u017f\u212aq;\x01\a\x7f\U0001F600")
)

func quoteRune(r rune) string { return regexp.QuoteMeta(string(r)) }

func classRune(r rune) string {
	switch r {
	case '\\', ']', '[', '^', '-':
		return `\` + string(r)
	case '\n':
		return `\n`
	case '\t':
		return `\t`
	}
	return string(r)
}

// String prints the pattern.
func (r *RX) String() string {
	var sb strings.Builder
	r.print(&sb)
	return sb.String()
}

func (r *RX) atomic() bool {
	switch r.Op {
	case "class", "any", "anys", "cap", "grp", "perl", "fold":
		return true
	case "lit":
		return len([]rune(r.Lit)) == 1
	}
	return false
}

func (r *RX) print(sb *strings.Builder) {
	switch r.Op {
	case "lit":
		for _, c := range r.Lit {
			if c == '\n' {
				sb.WriteString(`\n`)
			} else if c == '\t' {
				sb.WriteString(`\t`)
			} else {
				sb.WriteString(quoteRune(c))
			}
		}
	case "class":
		sb.WriteString("[")
		if r.Neg {
			sb.WriteString("^")
		}
		for i := 0; i+1 < len(r.Set); i += 2 {
			sb.WriteString(classRune(r.Set[i]))
			if r.Set[i+1] != r.Set[i] {
				sb.WriteString("-")
				sb.WriteString(classRune(r.Set[i+1]))
			}
		}
		sb.WriteString("]")
	case "perl":
		sb.WriteString(r.Lit)
	case "any":
		sb.WriteString(".")
	case "anys":
		sb.WriteString("(?s:.)")
	case "cap":
		sb.WriteString("(")
		r.Kids[0].print(sb)
		sb.WriteString(")")
	case "grp":
		sb.WriteString("(?:")
		r.Kids[0].print(sb)
		sb.WriteString(")")
	case "fold":
		sb.WriteString("(?i:")
		r.Kids[0].print(sb)
		sb.WriteString(")")
	case "star", "plus", "quest", "rep":
		k := r.Kids[0]
		if k.atomic() {
			k.print(sb)
		} else {
			sb.WriteString("(?:")
			k.print(sb)
			sb.WriteString(")")
		}
		switch r.Op {
		case "star":
			sb.WriteString("*")
		case "plus":
			sb.WriteString("+")
		case "quest":
			sb.WriteString("?")
		case "rep":
			sb.WriteString("{" + strconv.Itoa(r.Min))
			if r.Max != r.Min {
				sb.WriteString(",")
				if r.Max >= 0 {
					sb.WriteString(strconv.Itoa(r.Max))
				}
			}
			sb.WriteString("}")
		}
	case "alt":
		for i, k := range r.Kids {
			if i > 0 {
				sb.WriteString("|")
			}
			k.print(sb)
		}
	case "cat":
		for _, k := range r.Kids {
			if k.Op == "alt" {
				sb.WriteString("(?:")
				k.print(sb)
				sb.WriteString(")")
			} else {
				k.print(sb)
			}
		}
	case "bol":
		sb.WriteString("^")
	case "eol":
		sb.WriteString("$")
	case "wb":
		sb.WriteString(`\b`)
	case "nwb":
		sb.WriteString(`\B`)
	case "backref":
		sb.WriteString(`\` + strconv.Itoa(r.N))
	}
}

// Nullable reports whether the expression can match the empty string.
func (r *RX) Nullable() bool {
	switch r.Op {
	case "lit":
		return r.Lit == ""
	case "class", "any", "anys", "perl":
		return false
	case "cap", "grp", "fold", "plus":
		return r.Kids[0].Nullable()
	case "star", "quest":
		return true
	case "rep":
		return r.Min == 0 || r.Kids[0].Nullable()
	case "alt":
		for _, k := range r.Kids {
			if k.Nullable() {
				return true
			}
		}
		return false
	case "cat":
		for _, k := range r.Kids {
			if !k.Nullable() {
				return false
			}
		}
		return true
	case "bol", "eol", "wb", "nwb":
		return true
	case "backref":
		return true // the group may be empty
	}
	return true
}

// NumCaps counts capture groups.
func (r *RX) NumCaps() int {
	n := 0
	if r.Op == "cap" {
		n = 1
	}
	for _, k := range r.Kids {
		n += k.NumCaps()
	}
	return n
}

// HasOp reports whether the tree uses an operator.
func (r *RX) HasOp(op string) bool {
	if r.Op == op {
		return true
	}
	for _, k := range r.Kids {
		if k.HasOp(op) {
			return true
		}
	}
	return false
}

// Ops adds the operators used to the set.
func (r *RX) Ops(set map[string]bool) {
	set[r.Op] = true
	for _, k := range r.Kids {
		k.Ops(set)
	}
}

// GenOpts steer pattern generation.
type GenOpts struct {
	Alpha      []rune
	Anchors    bool // allow ^ $ \b \B
	Caps       bool // allow capture groups
	Fold       bool // allow (?i:)
	NoNullable bool // the whole pattern must not match the empty string
	MaxDepth   int
	Repeat     bool // allow {n,m}
}

func pickRune(r *mon.RNG, alpha []rune) rune { return alpha[r.Intn(len(alpha))] }

func genLit(r *mon.RNG, o *GenOpts) *RX {
	n := r.Weighted(6, 3, 2, 1) + 1
	var sb strings.Builder
	for i := 0; i < n; i++ {
		sb.WriteRune(pickRune(r, o.Alpha))
	}
	return &RX{Op: "lit", Lit: sb.String()}
}

func genClass(r *mon.RNG, o *GenOpts) *RX {
	switch r.Intn(6) {
	case 0:
		return &RX{Op: "perl", Lit: r.Pick(`\w`, `\d`, `\s`, `\W`, `\D`, `\S`)}
	case 1:
		if r.Bool() {
			return &RX{Op: "any"}
		}
		return &RX{Op: "anys"}
	}
	c := &RX{Op: "class", Neg: r.Chance(1, 4)}
	n := r.Range(1, 4)
	for i := 0; i < n; i++ {
		switch r.Intn(5) {
		case 0:
			c.Set = append(c.Set, 'a', 'c')
		case 1:
			c.Set = append(c.Set, '0', '9')
		case 2:
			c.Set = append(c.Set, 'x', 'z')
		default:
			x := pickRune(r, o.Alpha)
			c.Set = append(c.Set, x, x)
		}
	}
	return c
}

// Gen generates a pattern tree.
func Gen(r *mon.RNG, o *GenOpts) *RX {
	for tries := 0; ; tries++ {
		x := gen(r, o, o.MaxDepth)
		if o.MaxDepth > 0 && r.Chance(1, 8) {
			// a top-level alternation, not wrapped in a group by the author; the first
			// branch may carry the author's own ^ ("^let|var")
			a, b := gen(r, o, o.MaxDepth-1), gen(r, o, o.MaxDepth-1)
			for _, k := range []**RX{&a, &b} {
				if (*k).Op == "alt" {
					*k = &RX{Op: "grp", Kids: []*RX{*k}}
				}
			}
			if o.Anchors && r.Bool() {
				if a.Op == "cat" {
					a = &RX{Op: "cat", Kids: append([]*RX{{Op: "bol"}}, a.Kids...)}
				} else {
					a = &RX{Op: "cat", Kids: []*RX{{Op: "bol"}, a}}
				}
			}
			x = &RX{Op: "alt", Kids: []*RX{a, b}}
		}
		if o.NoNullable && x.Nullable() {
			if tries > 20 {
				return &RX{Op: "lit", Lit: "a"}
			}
			continue
		}
		if _, err := regexp.Compile("^(?:" + x.String() + ")"); err != nil {
			continue
		}
		return x
	}
}

func gen(r *mon.RNG, o *GenOpts, depth int) *RX {
	if depth <= 0 {
		if r.Chance(2, 3) {
			return genLit(r, o)
		}
		return genClass(r, o)
	}
	switch r.Weighted(5, 3, 5, 3, 4, 1, 1, 1) {
	case 0:
		return genLit(r, o)
	case 1:
		return genClass(r, o)
	case 2: // concat
		n := r.Range(2, 4)
		c := &RX{Op: "cat"}
		for i := 0; i < n; i++ {
			k := gen(r, o, depth-1)
			if k.Op == "cat" {
				c.Kids = append(c.Kids, k.Kids...)
			} else {
				c.Kids = append(c.Kids, k)
			}
		}
		if o.Anchors && r.Chance(1, 4) {
			a := &RX{Op: r.Pick("bol", "eol", "wb", "nwb", "wb", "wb")}
			pos := r.Intn(len(c.Kids) + 1)
			if a.Op == "bol" {
				pos = 0
			}
			if a.Op == "eol" {
				pos = len(c.Kids)
			}
			c.Kids = append(c.Kids[:pos], append([]*RX{a}, c.Kids[pos:]...)...)
		}
		return c
	case 3: // alternation
		n := r.Range(2, 3)
		a := &RX{Op: "alt"}
		for i := 0; i < n; i++ {
			k := gen(r, o, depth-1)
			if k.Op == "alt" {
				k = &RX{Op: "grp", Kids: []*RX{k}}
			}
			a.Kids = append(a.Kids, k)
		}
		return &RX{Op: "grp", Kids: []*RX{a}}
	case 4: // repetition
		k := gen(r, o, depth-1)
		if r.Chance(1, 5) {
			// a body that can itself match the empty string: (x?)*, (x*)+, (|x)*
			switch r.Intn(3) {
			case 0:
				k = &RX{Op: "quest", Kids: []*RX{k}}
			case 1:
				k = &RX{Op: "star", Kids: []*RX{k}}
			default:
				k = &RX{Op: "grp", Kids: []*RX{{Op: "alt", Kids: []*RX{{Op: "lit", Lit: ""}, k}}}}
			}
		}
		op := r.Pick("star", "plus", "quest", "plus", "star")
		x := &RX{Op: op, Kids: []*RX{k}}
		if o.Repeat && r.Chance(1, 5) {
			x.Op = "rep"
			x.Min = r.Intn(3)
			x.Max = x.Min + r.Intn(3)
			if x.Max == 0 {
				x.Max = 1
			}
		}
		return x
	case 5:
		if o.Caps {
			return &RX{Op: "cap", Kids: []*RX{gen(r, o, depth-1)}}
		}
		return &RX{Op: "grp", Kids: []*RX{gen(r, o, depth-1)}}
	case 6:
		if o.Fold {
			return &RX{Op: "fold", Kids: []*RX{gen(r, o, depth-1)}}
		}
		return genLit(r, o)
	default:
		return genClass(r, o)
	}
}

// Sample produces a string that the expression is likely to match. groups are
// the captured groups of the rule that entered the current state (for backref).
func (x *RX) Sample(r *mon.RNG, groups []string) string {
	var sb strings.Builder
	x.sample(r, groups, &sb, false)
	return sb.String()
}

func (x *RX) sample(r *mon.RNG, groups []string, sb *strings.Builder, fold bool) {
	switch x.Op {
	case "lit":
		for _, c := range x.Lit {
			if fold && c >= 0x40 && c < 0x7f && !unicode.IsLetter(c) && r.Chance(1, 4) {
				// not a fold partner: the ASCII character 0x20 away ('[' / '{', '^' / '~', '_' / DEL ...)
				sb.WriteRune(c ^ 0x20)
				continue
			}
			if fold && r.Bool() {
				if unicode.IsUpper(c) {
					c = unicode.ToLower(c)
				} else {
					c = unicode.ToUpper(c)
				}
				if r.Chance(1, 8) {
					// Unicode fold partners of ASCII letters.
					if c == 'k' || c == 'K' {
						c = '\u212a' // KELVIN SIGN folds to k
					} else if c == 's' || c == 'S' {
						c = '\u017f' // LATIN SMALL LETTER LONG S folds to s
					}
				}
			}
			sb.WriteRune(c)
		}
	case "class":
		if x.Neg {
			for i := 0; i < 8; i++ {
				c := pickRune(r, AlphaInput)
				if !inSet(x.Set, c) {
					sb.WriteRune(c)
					return
				}
			}
			sb.WriteRune('q')
			return
		}
		i := r.Intn(len(x.Set)/2) * 2
		lo, hi := x.Set[i], x.Set[i+1]
		sb.WriteRune(lo + rune(r.Intn(int(hi-lo)+1)))
	case "perl":
		switch x.Lit {
		case `\w`:
			sb.WriteRune(pickRune(r, []rune("abcxz01_B")))
		case `\d`:
			sb.WriteRune(pickRune(r, []rune("0129")))
		case `\s`:
			sb.WriteRune(pickRune(r, []rune(" \t\n")))
		case `\W`:
			sb.WriteRune(pickRune(r, []rune(" -+(.é")))
		case `\D`:
			sb.WriteRune(pickRune(r, []rune("ab -世")))
		case `\S`:
			sb.WriteRune(pickRune(r, []rune("ab0-é")))
		}
	case "any":
		c := pickRune(r, AlphaInput)
		if c == '\n' {
			c = 'n'
		}
		sb.WriteRune(c)
	case "anys":
		sb.WriteRune(pickRune(r, AlphaInput))
	case "cap", "grp":
		x.Kids[0].sample(r, groups, sb, fold)
	case "fold":
		x.Kids[0].sample(r, groups, sb, true)
	case "star":
		for n := r.Weighted(2, 3, 2, 1); n > 0; n-- {
			x.Kids[0].sample(r, groups, sb, fold)
		}
	case "plus":
		for n := 1 + r.Weighted(3, 2, 1); n > 0; n-- {
			x.Kids[0].sample(r, groups, sb, fold)
		}
	case "quest":
		if r.Bool() {
			x.Kids[0].sample(r, groups, sb, fold)
		}
	case "rep":
		max := x.Max
		if max < 0 {
			max = x.Min + 2
		}
		for n := r.Range(x.Min, max); n > 0; n-- {
			x.Kids[0].sample(r, groups, sb, fold)
		}
	case "alt":
		x.Kids[r.Intn(len(x.Kids))].sample(r, groups, sb, fold)
	case "cat":
		for _, k := range x.Kids {
			k.sample(r, groups, sb, fold)
		}
	case "backref":
		if x.N < len(groups) {
			sb.WriteString(groups[x.N])
		}
	}
}

func inSet(set []rune, c rune) bool {
	for i := 0; i+1 < len(set); i += 2 {
		if c >= set[i] && c <= set[i+1] {
			return true
		}
	}
	return false
}
