package lexgen

import (
	"fmt"
	"strings"
	"unicode"

	"github.com/alecthomas/participle/v2/lexer"

	"verifharness/mon"
)

// GRule is one generated rule.
type GRule struct {
	Name    string `json:"name,omitempty"`
	Pattern string `json:"pattern,omitempty"`
	Action  string `json:"action,omitempty"` // "", push, pop, include, return
	Target  string `json:"target,omitempty"`
	rx      *RX
}

// RX returns the syntax tree the pattern was printed from (nil for include/return).
func (g *GRule) RX() *RX { return g.rx }

// GMap is a generated rule map.
type GMap struct {
	States []string           `json:"states"`
	Rules  map[string][]GRule `json:"rules"`
}

// Elided reports whether a rule name is dropped by the lexer.
func Elided(name string) bool {
	// "Lower-case rule names are elided." For names that begin with a non-ASCII letter (only generated for C05)
	// the library looks at the first byte as if it were a Latin-1 character; so does this.
	return len(name) > 0 && unicode.IsLower(rune(name[0]))
}

// ToLexer converts to the library's rule map.
func (g *GMap) ToLexer() lexer.Rules {
	out := lexer.Rules{}
	for _, st := range g.States {
		rs := []lexer.Rule{}
		for _, r := range g.Rules[st] {
			switch r.Action {
			case "include":
				rs = append(rs, lexer.Include(r.Target))
			case "return":
				rs = append(rs, lexer.Return())
			case "push":
				rs = append(rs, lexer.Rule{Name: r.Name, Pattern: r.Pattern, Action: lexer.Push(r.Target)})
			case "pop":
				rs = append(rs, lexer.Rule{Name: r.Name, Pattern: r.Pattern, Action: lexer.Pop()})
			default:
				rs = append(rs, lexer.Rule{Name: r.Name, Pattern: r.Pattern})
			}
		}
		out[st] = rs
	}
	return out
}

// String renders the map compactly for reports.
func (g *GMap) String() string {
	var sb strings.Builder
	for _, st := range g.States {
		fmt.Fprintf(&sb, "%s:{", st)
		for i, r := range g.Rules[st] {
			if i > 0 {
				sb.WriteString("; ")
			}
			switch r.Action {
			case "include":
				fmt.Fprintf(&sb, "include(%s)", r.Target)
			case "return":
				sb.WriteString("return")
			case "push":
				fmt.Fprintf(&sb, "%s=%q push(%s)", r.Name, r.Pattern, r.Target)
			case "pop":
				fmt.Fprintf(&sb, "%s=%q pop", r.Name, r.Pattern)
			default:
				fmt.Fprintf(&sb, "%s=%q", r.Name, r.Pattern)
			}
		}
		sb.WriteString("} ")
	}
	return sb.String()
}

// MapOpts steer rule-map generation.
type MapOpts struct {
	Supported bool // the code generator's documented class: no back-references, no empty-matching rule
	Hostile   bool // Pop/Return reachable from Root, optional groups in pushing rules, bad back-references
	Backrefs  bool
	MaxStates int
	Elide     bool // allow lower-case (dropped) rules
	Plain     bool // literals/classes only from the plain alphabet (no metacharacters)
	OddNames  bool // C16: a state may be named by the empty string; C05: rule names may start with a non-ASCII letter
}

// GenMap generates a rule map the constructor is expected to accept.
func GenMap(r *mon.RNG, o *MapOpts) *GMap {
	g := &GMap{Rules: map[string][]GRule{}}
	ns := 1
	if o.MaxStates > 1 {
		ns = 1 + r.Weighted(3, 3, 2, 1, 1, 1)%o.MaxStates
	}
	g.States = append(g.States, "Root")
	for i := 1; i < ns; i++ {
		g.States = append(g.States, fmt.Sprintf("S%d", i))
	}
	if o.OddNames && !o.Supported && ns > 1 && r.Chance(1, 8) {
		g.States[ns-1] = "" // a state named by the empty string is a state like any other
	}
	pool := map[string]*RX{} // name -> pattern tree (a name always has one pattern)
	var poolNames []string
	nameN := 0
	newName := func(elide bool) string {
		nameN++
		if elide {
			return fmt.Sprintf("skip%d", nameN)
		}
		if o.OddNames && o.Supported && r.Chance(1, 10) {
			// whether a rule is elided is decided by the first BYTE of its name: 0xCE (Greek) and 0xC3 0x89 (É) count as upper case
			// for the runtime lexer and the generator alike; both must agree whatever they decide
			return fmt.Sprintf("%s%d", r.Pick("λ", "É", "空", "ß", "Ω"), nameN)
		}
		switch r.Intn(16) {
		case 0: // names that start with neither an upper- nor a lower-case letter are ordinary (not elided) rules
			return fmt.Sprintf("_%c%d", 'a'+rune(r.Intn(26)), nameN)
		case 1:
			return fmt.Sprintf("%dx%c", nameN, 'A'+rune(r.Intn(26)))
		}
		return fmt.Sprintf("%c%d", 'A'+rune(r.Intn(26)), nameN)
	}
	alpha := AlphaBasic
	if o.Plain {
		alpha = AlphaPlain
	}
	gopts := &GenOpts{Alpha: alpha, Anchors: true, Caps: true, Fold: true, NoNullable: o.Supported || r.Chance(5, 6), MaxDepth: 3, Repeat: true}
	// entering-group counts per state, for back-reference generation
	maxGroups := map[string]int{}
	type pending struct{ state string }
	for si, st := range g.States {
		n := r.Range(1, 7)
		if o.Supported {
			n = r.Range(1, 5)
		}
		for i := 0; i < n; i++ {
			var gr GRule
			// reuse an existing named rule sometimes
			if len(poolNames) > 0 && r.Chance(1, 5) {
				nm := poolNames[r.Intn(len(poolNames))]
				gr = GRule{Name: nm, Pattern: pool[nm].String(), rx: pool[nm]}
			} else {
				go2 := *gopts
				go2.MaxDepth = r.Weighted(2, 4, 3, 1)
				if !o.Supported {
					go2.NoNullable = r.Chance(5, 6)
				}
				rx := Gen(r, &go2)
				nm := newName(o.Elide && r.Chance(1, 6))
				pool[nm] = rx
				poolNames = append(poolNames, nm)
				gr = GRule{Name: nm, Pattern: rx.String(), rx: rx}
			}
			// action
			switch {
			case ns > 1 && r.Chance(1, 3):
				gr.Action = "push"
				gr.Target = g.States[r.Intn(ns)]
				if gr.Target == "Root" && r.Chance(2, 3) && ns > 1 {
					gr.Target = g.States[1+r.Intn(ns-1)]
				}
				if nc := gr.rx.NumCaps(); nc > maxGroups[gr.Target] {
					maxGroups[gr.Target] = nc
				}
			case (si > 0 || o.Hostile) && r.Chance(1, 4):
				gr.Action = "pop"
			}
			if (gr.Action == "push" || gr.Action == "pop") && gr.rx.Nullable() && o.Supported {
				gr.Action = ""
			}
			g.Rules[st] = append(g.Rules[st], gr)
		}
	}
	// A state whose rules are all lexer-elided (lower-case names), entered by elided rules:
	// the shape of a fully elided /* ... */ comment state. Several state changes then
	// happen inside one Next() call without any token being returned.
	if o.Elide && ns > 1 && r.Chance(1, 3) {
		S := g.States[1+r.Intn(ns-1)]
		hasPop := false
		for i := range g.Rules[S] {
			ru := &g.Rules[S][i]
			if ru.rx == nil {
				continue
			}
			nm := newName(true)
			pool[nm] = ru.rx
			ru.Name = nm
			if ru.Action == "pop" {
				hasPop = true
			}
		}
		if !hasPop {
			for i := range g.Rules[S] {
				ru := &g.Rules[S][i]
				if ru.rx != nil && ru.Action == "" && !ru.rx.Nullable() {
					ru.Action = "pop"
					break
				}
			}
		}
		for _, st := range g.States {
			if st == S {
				continue
			}
			for i := range g.Rules[st] {
				ru := &g.Rules[st][i]
				if ru.rx != nil && ru.Action == "push" && ru.Target == S {
					nm := newName(true)
					pool[nm] = ru.rx
					ru.Name = nm
				}
			}
		}
	}
	// A state without any rule, and a rule that pushes it: a valid definition (nothing can be lexed in that state).
	if o.OddNames && !o.Supported && r.Chance(1, 8) {
		g.States = append(g.States, "Hollow")
		g.Rules["Hollow"] = nil
		rx := &RX{Op: "lit", Lit: "%h"}
		nm := newName(false)
		pool[nm] = rx
		st := g.States[r.Intn(ns)]
		g.Rules[st] = append(g.Rules[st], GRule{Name: nm, Pattern: rx.String(), rx: rx, Action: "push", Target: "Hollow"})
	}
	// Hostile: a pushing rule whose group may not participate.
	if o.Hostile && ns > 1 && r.Chance(1, 2) {
		rx := &RX{Op: "cat", Kids: []*RX{{Op: "quest", Kids: []*RX{{Op: "cap", Kids: []*RX{{Op: "lit", Lit: "<"}}}}}, {Op: "lit", Lit: "("}, {Op: "cap", Kids: []*RX{{Op: "star", Kids: []*RX{{Op: "class", Set: []rune{'a', 'c'}}}}}}}}
		nm := newName(false)
		pool[nm] = rx
		tgt := g.States[1+r.Intn(ns-1)]
		st := g.States[r.Intn(ns)]
		gr := GRule{Name: nm, Pattern: rx.String(), rx: rx, Action: "push", Target: tgt}
		pos := r.Intn(len(g.Rules[st]) + 1)
		g.Rules[st] = append(g.Rules[st][:pos], append([]GRule{gr}, g.Rules[st][pos:]...)...)
		if maxGroups[tgt] < 2 {
			maxGroups[tgt] = 2
		}
	}
	// Hostile: a pushing rule that can match the empty string and has a capture group: `( *)`, `(x?)(y*)`.
	if o.Hostile && ns > 1 && r.Chance(1, 3) {
		var rx *RX
		if r.Bool() {
			rx = &RX{Op: "cap", Kids: []*RX{{Op: "star", Kids: []*RX{{Op: "lit", Lit: " "}}}}}
		} else {
			rx = &RX{Op: "cat", Kids: []*RX{{Op: "cap", Kids: []*RX{{Op: "quest", Kids: []*RX{{Op: "lit", Lit: "x"}}}}}, {Op: "cap", Kids: []*RX{{Op: "star", Kids: []*RX{{Op: "lit", Lit: "y"}}}}}}}
		}
		nm := newName(o.Elide && r.Bool())
		pool[nm] = rx
		tgt := g.States[1+r.Intn(ns-1)]
		st := g.States[r.Intn(ns)]
		gr := GRule{Name: nm, Pattern: rx.String(), rx: rx, Action: "push", Target: tgt}
		g.Rules[st] = append(g.Rules[st], gr)
		if maxGroups[tgt] < 2 {
			maxGroups[tgt] = 2
		}
	}
	// Back-reference rules in states entered with groups.
	if o.Backrefs && !o.Supported {
		for _, st := range g.States {
			mg := maxGroups[st]
			if mg == 0 && !(o.Hostile && r.Chance(1, 6)) {
				continue
			}
			if !r.Chance(3, 4) {
				continue
			}
			n := r.Intn(mg + 1)
			if o.Hostile && r.Chance(1, 8) {
				n = mg + 1 // names a group the entering rule did not capture
			}
			if n > 9 {
				n = 9
			}
			kids := []*RX{}
			if r.Chance(1, 3) {
				kids = append(kids, genLit(r, gopts))
			}
			kids = append(kids, &RX{Op: "backref", N: n})
			if r.Chance(1, 3) {
				// a literal that does not start with a digit (it would extend the group number visually only; still legal)
				kids = append(kids, &RX{Op: "lit", Lit: r.Pick(";", "x", "--", ")")})
			}
			if r.Chance(1, 4) {
				// an escaped backslash followed by a digit after the back-reference: a literal, not a second back-reference
				kids = append(kids, &RX{Op: "lit", Lit: "\\" + r.Pick("0", "1", "2")})
			}
			rx := &RX{Op: "cat", Kids: kids}
			if r.Chance(1, 4) {
				// a back-reference pattern with a top-level alternation: \1--|x
				rx = &RX{Op: "alt", Kids: []*RX{rx, genLit(r, gopts)}}
				if r.Bool() {
					rx.Kids[0], rx.Kids[1] = rx.Kids[1], rx.Kids[0]
				}
			}
			nm := newName(false)
			pool[nm] = rx
			gr := GRule{Name: nm, Pattern: rx.String(), rx: rx}
			if r.Chance(3, 4) {
				gr.Action = "pop"
			}
			pos := r.Intn(len(g.Rules[st]) + 1)
			g.Rules[st] = append(g.Rules[st][:pos], append([]GRule{gr}, g.Rules[st][pos:]...)...)
		}
	}
	// Includes (acyclic: a state may include only states with a larger index).
	for si, st := range g.States {
		if si+1 < ns && r.Chance(1, 3) {
			tgt := g.States[si+1+r.Intn(ns-si-1)]
			pos := r.Intn(len(g.Rules[st]) + 1)
			inc := GRule{Action: "include", Target: tgt}
			g.Rules[st] = append(g.Rules[st][:pos], append([]GRule{inc}, g.Rules[st][pos:]...)...)
		}
	}
	// Return rules: last rule of a non-root state; in hostile maps also in Root / mid-list.
	for si, st := range g.States {
		if si > 0 && r.Chance(1, 3) {
			g.Rules[st] = append(g.Rules[st], GRule{Action: "return"})
		} else if o.Hostile && r.Chance(1, 6) {
			pos := r.Intn(len(g.Rules[st]) + 1)
			g.Rules[st] = append(g.Rules[st][:pos], append([]GRule{{Action: "return"}}, g.Rules[st][pos:]...)...)
		}
	}
	return g
}

// Expand returns the rules of a state with includes spliced in place.
func (g *GMap) Expand(state string) []GRule {
	return g.expand(state, 0)
}

func (g *GMap) expand(state string, depth int) []GRule {
	var out []GRule
	if depth > 20 {
		return nil
	}
	for _, r := range g.Rules[state] {
		if r.Action == "include" {
			out = append(out, g.expand(r.Target, depth+1)...)
		} else {
			out = append(out, r)
		}
	}
	return out
}

// HasElided reports whether any rule of the map is silently dropped.
func (g *GMap) HasElided() bool {
	for _, rs := range g.Rules {
		for _, r := range rs {
			if Elided(r.Name) {
				return true
			}
		}
	}
	return false
}

// SampleInput walks the state machine, sampling rule patterns, so that pushes
// and pops actually happen; then optionally damages the text.
func (g *GMap) SampleInput(r *mon.RNG, maxTokens int) string {
	type frame struct {
		state  string
		groups []string
	}
	stack := []frame{{state: "Root"}}
	var sb strings.Builder
	n := r.Range(0, maxTokens)
	for i := 0; i < n; i++ {
		top := stack[len(stack)-1]
		rules := g.Expand(top.state)
		if len(rules) == 0 {
			break
		}
		ru := rules[r.Intn(len(rules))]
		if ru.Action == "return" {
			if len(stack) > 1 {
				stack = stack[:len(stack)-1]
			}
			continue
		}
		if ru.rx == nil {
			continue
		}
		s := ru.rx.Sample(r, top.groups)
		sb.WriteString(s)
		switch ru.Action {
		case "push":
			groups := []string{s}
			// group texts: approximate with the real regexp on the sample
			if re, err := compileAt(ru.Pattern, top.groups); err == nil {
				if m := re.FindStringSubmatch(s); m != nil {
					groups = m
				}
			}
			stack = append(stack, frame{ru.Target, groups})
		case "pop":
			if len(stack) > 1 || r.Chance(1, 3) {
				if len(stack) > 0 {
					stack = stack[:len(stack)-1]
				}
				if len(stack) == 0 {
					stack = []frame{{state: "Root"}}
				}
			}
		}
	}
	s := sb.String()
	// Damage.
	switch r.Intn(8) {
	case 0: // truncate in the middle
		if len(s) > 0 {
			s = s[:r.Intn(len(s))]
		}
	case 1: // insert a random character
		rs := []rune(s)
		p := r.Intn(len(rs) + 1)
		s = string(rs[:p]) + string(pickRune(r, AlphaInput)) + string(rs[p:])
	case 2: // append soup
		for k := r.Range(1, 5); k > 0; k-- {
			s += string(pickRune(r, AlphaInput))
		}
	case 3: // invalid UTF-8
		p := r.Intn(len(s) + 1)
		s = s[:p] + string([]byte{0xff}) + s[p:]
	}
	return s
}

// Soup returns random text over the input alphabet.
func Soup(r *mon.RNG, n int) string {
	var sb strings.Builder
	for i := 0; i < n; i++ {
		sb.WriteRune(pickRune(r, AlphaInput))
	}
	return sb.String()
}
