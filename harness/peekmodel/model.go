// Package peekmodel is an explicit executable model of lexer.PeekingLexer,
// written from the sentences of property C12 (not from peek.go): a token list,
// an elision set and one integer, with every observable derived from them.
package peekmodel

import "github.com/alecthomas/participle/v2/lexer"

// Model state: the raw cursor only. Everything else is a function of it.
type Model struct {
	Toks  []lexer.Token // last token is EOF
	Elide map[lexer.TokenType]bool
	Raw   int
}

// Snapshot is a checkpoint of the model.
type Snapshot struct{ Raw int }

func (m *Model) eofIdx() int { return len(m.Toks) - 1 }

func (m *Model) elided(i int) bool {
	t := m.Toks[i]
	return t.Type != lexer.EOF && m.Elide[t.Type]
}

// NextIdx is the index of the first non-elided token at or after the raw cursor (EOF if none).
func (m *Model) NextIdx() int {
	i := m.Raw
	for i < m.eofIdx() && m.elided(i) {
		i++
	}
	return i
}

// Peek returns the first non-elided token at or after the raw cursor.
func (m *Model) Peek() lexer.Token { return m.Toks[m.NextIdx()] }

// RawPeek returns the token at the raw cursor.
func (m *Model) RawPeek() lexer.Token { return m.Toks[m.Raw] }

// Cursor is the number of non-elided tokens consumed so far.
func (m *Model) Cursor() int {
	n := 0
	for i := 0; i < m.Raw; i++ {
		if !m.elided(i) && m.Toks[i].Type != lexer.EOF {
			n++
		}
	}
	return n
}

// Next returns Peek and moves just past it; idempotent at EOF.
func (m *Model) Next() lexer.Token {
	i := m.NextIdx()
	t := m.Toks[i]
	if t.Type != lexer.EOF {
		m.Raw = i + 1
	}
	return t
}

// PeekAny returns the first token from the raw cursor that is EOF, matches, or is non-elided.
func (m *Model) PeekAny(match func(lexer.Token) bool) (lexer.Token, int) {
	for i := m.Raw; ; i++ {
		t := m.Toks[i]
		if t.Type == lexer.EOF || match(t) || !m.elided(i) {
			return t, i
		}
	}
}

// FastForward consumes through the token at rc (never past EOF, never backwards).
func (m *Model) FastForward(rc int) {
	to := rc + 1
	if to > m.eofIdx() {
		to = m.eofIdx()
	}
	if to > m.Raw {
		m.Raw = to
	}
}

// Save takes a checkpoint.
func (m *Model) Save() Snapshot { return Snapshot{m.Raw} }

// Load restores a checkpoint.
func (m *Model) Load(s Snapshot) { m.Raw = s.Raw }
