// vdriver is the check driver: `vdriver <ID> quick|thorough [--replay path]`
// runs a property's check as the parent; `vdriver child ...` is the batch child.
package main

import (
	"fmt"
	"os"
	"strconv"

	"verifharness/mon"
	"verifharness/props"
)

func main() {
	if len(os.Args) < 2 {
		fmt.Println("usage: vdriver <ID> quick|thorough [--replay path]")
		os.Exit(2)
	}
	if os.Args[1] == "child" {
		spec := props.All[os.Args[2]]
		if spec == nil || spec.Child == nil {
			fmt.Println("unknown property", os.Args[2])
			os.Exit(2)
		}
		mon.RunChild(os.Args[2:], spec.Child)
		return
	}
	id := os.Args[1]
	spec := props.All[id]
	if spec == nil {
		fmt.Println("unknown property", id)
		os.Exit(2)
	}
	tier := "quick"
	replay := ""
	for i := 2; i < len(os.Args); i++ {
		switch os.Args[i] {
		case "quick", "thorough":
			tier = os.Args[i]
		case "--replay":
			if i+1 < len(os.Args) {
				replay = os.Args[i+1]
				i++
			}
		}
	}
	if t := os.Getenv("VERIF_TIER"); t == "quick" || t == "thorough" {
		if len(os.Args) < 3 {
			tier = t
		}
	}
	seed := int64(1)
	if s := os.Getenv("VERIF_SEED"); s != "" {
		if n, err := strconv.ParseInt(s, 10, 64); err == nil {
			seed = n
		}
	}
	os.Exit(mon.RunParent(spec, tier, seed, replay))
}
