#!/bin/bash
# setup_cmd: offline; warms the Go build cache for the harness (plain and
# race-instrumented) so the first check does not pay for the std build.
set -u
export GOFLAGS=-mod=mod GOPROXY=off GOSUMDB=off GOTOOLCHAIN=local
cd "$(dirname "$0")/harness" || exit 1
cp /repo/go.sum go.sum 2>/dev/null
mkdir -p ../evidence ../replays
go build -tags verif -o /dev/null ./cmd/vdriver || exit 1
go build -race -tags verif -o /dev/null ./cmd/vdriver || exit 1
echo setup ok
