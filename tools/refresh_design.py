#!/usr/bin/env python3
"""Regenerates the machine-made parts of DESIGN.md: the fix list of section 7
(from /repo's git log), the seeded-change table of section 8 (from
seeded/*/meta.json; pass the log of tools/seeded_sweep.sh to record the last
sweep) and the cost table of section 9 (from evidence/*.json)."""
import json,glob,os,re,subprocess,sys
D='/verif/DESIGN.md'
s=open(D).read()
# ---- section 7
log=subprocess.check_output(['git','-C','/repo','log','--reverse','--format=%h %s','c4ba82b..HEAD']).decode().strip().split('\n')
fixes=[l for l in log if l.split(' ',1)[1].startswith('fix:')]
a=s.index('**Repaired (')
b=s.index('Which check found which:')
s=s[:a]+'**Repaired (%d commits, oldest first)**\n\n'%len(fixes)+'\n'.join('* `%s` %s'%tuple(l.split(' ',1)) for l in fixes)+'\n\n'+s[b:]
s=re.sub(r'pinned tree \(\d+ repaired with','pinned tree (%d repaired with'%len(fixes),s)
# ---- section 8 table
if len(sys.argv)>1:
    for line in open(sys.argv[1]):
        m=re.match(r'(C\d\d-m\d+) (detected|NOT DETECTED|SKIP)',line)
        if m:
            f='/verif/seeded/%s/meta.json'%m.group(1)
            meta=json.load(open(f)); meta['last_sweep']=m.group(2).lower(); json.dump(meta,open(f,'w'),indent=1,ensure_ascii=False)
rows=[]
for d in sorted(glob.glob('/verif/seeded/*/'), key=lambda p:(p.split('/')[-2].split('-')[0], int(p.split('/')[-2].split('-m')[1]))):
    m=json.load(open(d+'meta.json')); name=os.path.basename(d.rstrip('/'))
    first=''
    for line in m['needs_to_manifest'].split('\n'):
        line=line.strip().lstrip('#').strip()
        line=re.sub(r'^(Change:?\s*)','',line)
        if line and not line.lower().startswith('mutant') and len(line)>20:
            first=line; break
    hist=m.get('strengthening') or 'caught on the first run'
    if m.get('ported'): hist+=' (patch re-based onto the current HEAD)'
    last=m.get('last_sweep','not run')
    if m.get('superseded'):
        last='superseded: no longer breaks the property on the current HEAD (its demo passes); was detected before'
        hist+='; '+m['superseded']
    rows.append('| %s | %s | %s | %s |'%(name, first[:200].replace('|','/'), last, hist.replace('|','/')))
tbl='| change | what it is (author\'s notes, abridged) | last sweep on /repo (quick check of that property) | history |\n|---|---|---|---|\n'+'\n'.join(rows)+'\n'
a=s.index('| change | what it is')
END='<!-- SEEDED_TABLE_END -->'
b=s.index(END) if END in s else s.index('**8.2 Reverse-applying')
s=s[:a]+tbl+'\n'+(END+'\n\n' if END not in s else '')+s[b:]
# ---- section 9
rows=['| id | tier | evaluations | distinct non-trivial | batches | wall s |','|---|---|---|---|---|---|']
for f in sorted(glob.glob('/verif/evidence/C*.json')):
    e=json.load(open(f)); c=e['coverage']
    rows.append('| %s | %s | %s | %s | %s/%s | %.0f |'%(e['property_id'],e['tier'],f"{c['evaluations']:,}",f"{c['distinct_nontrivial']:,}",c.get('batches_completed','?'),c.get('batches','?'),e['wall_s']))
cost='<!-- COST_TABLE_BEGIN -->\n'+'\n'.join(rows)+'\n<!-- COST_TABLE_END -->'
if 'COST_TABLE_BEGIN' in s:
    s=re.sub(r'<!-- COST_TABLE_BEGIN -->.*?<!-- COST_TABLE_END -->',lambda m:cost,s,flags=re.S)
else:
    s=s.replace('\nCOST_TABLE\n','\n'+cost+'\n',1)
open(D,'w').write(s)
print(len(fixes),'fix commits;',len(glob.glob('/verif/seeded/*/')),'seeded changes')
