#!/usr/bin/env python3
"""Regenerates /verif/MANIFEST.json from the table below (kept in one place so
the manifest stays valid and consistent with what is built)."""
import json, os, sys
ROOT = os.path.dirname(os.path.dirname(os.path.abspath(__file__)))

CHECKS = {
 # id: (technique, level text, level note, design_ref)
 "C01": ("reference-model oracle: real parser vs an independent denotational evaluator of the tag language on generated grammar programs x token strings x lookahead x trailing x case-insensitivity",
         "Differential runtime monitoring against an executable reference semantics; every generated grammar is compiled against the current tree and every case compares error nil-ness and every captured field. Held on the executions counted in the evidence.",
         "Trusted: the reference evaluator (gram/eval.go, written from the README and the property text), Go's strconv; generated grammars exclude the library's own 'grammar bug' constructs; unspecified corners are counted, not judged.",
         "DESIGN.md 3.1, 4 C01"),
 "C02": ("reference-model oracle on successful parses, generator biased to capture-then-fail-then-other-path histories; fields never written on the accepted path must be zero",
         "Same engine as C01 with a generator aimed at abandoned attempts that had already captured (incl. completed / failed nested productions, inside ?,*,+,~ and lookahead groups).",
         "Trusted: as C01. Accept/reject disagreements are left to C01.",
         "DESIGN.md 4 C02"),
 "C03": ("reference-model oracle: real stateful lexer vs an independent reference lexer on generated rule maps x walked/damaged inputs",
         "Token stream (rule name, text, offset) or error position compared with an independent implementation of the documented rules.",
         "Trusted: Go's regexp and regexp.QuoteMeta (used by both sides); pop/return on the initial state is outside the definition and only compared up to that point.",
         "DESIGN.md 3.2.3, 4 C03"),
 "C04": ("invariant oracle computed from the input text alone (value = input bytes at offset, ordering, EOF, line/column, filename, concatenation) over stateful, simple, generated (participle gen lexer output compiled into the child) and every text/scanner constructor",
         "No reference lexer involved: positions and values are re-derived from the input bytes, for all four lexer kinds.",
         "Trusted: the 20-line position oracle (LineCol). Only successful lexing is judged.",
         "DESIGN.md 3.2.5, 4 C04"),
 "C05": ("translation check: Go source emitted by `participle gen lexer` is compiled and run against lexer.New(rules) on the same inputs; a PEG model of possessive matching run next to Go's regexp decides the documented tolerance",
         "Differential runtime comparison of generated vs runtime lexer (symbols, tokens, positions, errors) over generated rule maps of the documented supported class; generator failures and non-compiling output are violations; non-termination needs model prediction AND an observed non-return.",
         "Trusted: Go's regexp/syntax.Simplify (shared with the generator), the 150-line PEG interpreter (lexgen/peg.go).",
         "DESIGN.md 3.2.4, 4 C05"),
 "C06": ("panic / watchdog / Trace-depth monitors plus an error well-formedness oracle over generated grammars and the repository's example grammars on arbitrary, mutated and synthesised inputs",
         "Totality and error-object invariants checked on every call; recursion depth measured through the Trace option on flat and nested input families.",
         "Trusted: Parser.Lex as the source of the token at an error position; Trace does not change results (C15). User-code examples only get the panic-free/AST-nil rules.",
         "DESIGN.md 3.4, 4 C06"),
 "C07": ("panic monitor, progress bound and EOF-idempotence monitor over hostile generated rule maps and over Go lexers emitted and compiled at check time, one Next call at a time; non-termination of a generated Next by model prediction plus side run",
         "Totality/progress monitors on every Next call incl. calls after EOF and after an error.",
         "Trusted: process watchdog + isolated re-run for non-termination of a single Next.",
         "DESIGN.md 4 C07"),
 "C08": ("oracle = own left-edge/nullability analysis of the grammar IR vs Build's verdict, plus a Trace-based recursion-depth monitor on accepted grammars; systematic placement templates + random grammars",
         "Build's accept/reject compared with an independent analysis on >1000 placements of the cycle-closing reference; accepted grammars are parsed under a logical depth bound.",
         "Trusted: gram.Analysis (nullable fixpoint + left-edge reachability).",
         "DESIGN.md 4 C08"),
 "C09": ("Go race detector + per-operation equality with fresh-instance sequential results under a barrier-released multi-goroutine workload",
         "Race detector (happens-before) over concurrent Parse*/Lex/String/LexString on shared parsers (incl. ParseFromLexer, ParserForProduction, per-call options), the ebnf package parser, example parsers, per-round back-reference definitions, three lexer definitions emitted by `participle gen lexer`, and a configured next to the default text/scanner definition; results compared with isolated fresh instances; history independence re-checked sequentially.",
         "Trusted: the Go race detector; absence of reports covers only the executed interleavings. porcupine is not used: every operation is a pure function of its arguments, so linearizability degenerates to per-operation equality.",
         "DESIGN.md 3.5, 4 C09"),
 "C10": ("metamorphic relation: identical accept/reject and captured fields across re-spacings/re-commentings with equal non-elided token sequences; reference leaf rule for grammars naming elided types",
         "Metamorphic runtime check over 8-14 renderings x 6 lookahead values per token string.",
         "Trusted: Parser.Lex to confirm the renderings really have equal non-elided sequences; the reference evaluator for the second half.",
         "DESIGN.md 4 C10"),
 "C11": ("structural invariants of Pos/EndPos/Tokens against Parser.Lex output plus exact runs from the reference derivation",
         "Model-free invariants (contiguity, nesting, sibling disjointness, Pos/EndPos) and model-based equality with the reference derivation's consumed runs on every node of every successful parse.",
         "Trusted: reference evaluator for the exact runs; the invariants need no model.",
         "DESIGN.md 4 C11"),
 "C12": ("explicit executable model compared after every operation of random and exhaustively enumerated operation histories",
         "Runtime comparison of the real PeekingLexer with an executable model on every observable after every operation; thorough additionally enumerates a small scope exhaustively.",
         "Trusted: the 80-line model (peekmodel) as a faithful reading of the property's sentences; Go's == on lexer.Token.",
         "DESIGN.md 3.3, 4 C12"),
 "C13": ("metamorphic monotonicity across nine lookahead values on the same input (success at k implies identical AST at every larger k)",
         "Purely metamorphic: no reference semantics in the verdict.",
         "Trusted: nothing beyond AST normalisation; exponential (grammar,input) pairs are skipped by a reference-cost guard.",
         "DESIGN.md 4 C13"),
 "C14": ("output validity + completeness counts + print/parse fixpoint of Parser.String() through the ebnf package on generated grammars",
         "Every generated grammar's EBNF must parse, start with the root, define each referenced production once, carry exactly the IR's multiset of literals/references/operators, and survive print->parse->print.",
         "Trusted: the structural comparison of every production's EBNF with the grammar IR (plus multiset counts); named productions only.",
         "DESIGN.md 4 C14"),
 "C15": ("pairwise equality of (AST, error) across all entry points, recording Definition wrapper for the consumed token stream, reference semantics for the post-parse lexer position",
         "Relational runtime check across ParseString/ParseBytes/Parse/ParseFromLexer/Trace/named-reader and Definition.Lex/LexString/LexBytes.",
         "Trusted: the recording wrapper forwards to the wrapped definition's own methods; with mappers the consumed-stream comparison is skipped.",
         "DESIGN.md 4 C15"),
 "C16": ("metamorphic: lexer built from JSON round trip of definition / rules / def.Rules() must have equal Symbols() and equal token streams/errors",
         "Behavioural equality after serialisation on generated rule maps with every action kind.",
         "Trusted: equality judged on sampled inputs only.",
         "DESIGN.md 4 C16"),
 "C17": ("oracle = strconv.ParseInt/ParseUint/ParseFloat with the field's bit size over boundary tables of every numeric kind x template (scalar, named, pointer, slice, joined, elide, enclosing alternative)",
         "Value-exact comparison with strconv, and error presence/position/message checks.",
         "Trusted: strconv. []*numeric fields not claimed.",
         "DESIGN.md 4 C17"),
 "C18": ("oracle = strconv.Quote/CanBackquote inverse law for Unquote; token-by-token stream comparison for Upper; recorded call log for Map",
         "Inverse-of-quoting law over generated strings in three quoting styles and two lexers; mapper selection/position invariants.",
         "Trusted: strconv.Quote / CanBackquote.",
         "DESIGN.md 4 C18"),
 "C19": ("panic/hang monitor and exactly-one-of(parser,error) over reflect.StructOf struct types with soup tags, targeted malformed tags (must reject), valid corpus (must build) and exhaustive single-token edits",
         "Totality of Build under mass generated struct types; negative classes named by the property must be rejected; generated valid grammars must build.",
         "Trusted: reflect.StructOf + Union[any] as a faithful route into Build's parseType; named/recursive/embedded types reach Build through the compiled programs of the other checks.",
         "DESIGN.md 4 C19"),
}
PENDING = {}
def load_pending():
    ids = [json.loads(l)["id"] for l in open(os.path.join(ROOT, "properties.jsonl"))]
    return [i for i in ids if i not in CHECKS]

def main():
    checks = []
    for pid, (tech, text, note, ref) in sorted(CHECKS.items()):
        checks.append({
            "property_id": pid,
            "quick_cmd": f"./check {pid} quick",
            "thorough_cmd": f"./check {pid} thorough",
            "evidence_file": f"/verif/evidence/{pid}.json",
            "replay_cmd_template": f"./check {pid} --replay {{path}}",
            "engine": "vdriver",
            "level_claimed": {"category": "exploration", "text": text, "design_ref": ref},
            "level_note": note,
            "technique": tech,
        })
    na = [{"property_id": p, "reason": PENDING.get(p, "check not built yet in this revision (runtime monitor planned in DESIGN.md section 4); not claimed until it runs silent on the unchanged tree")} for p in load_pending()]
    m = {
        "version": 1,
        "setup_cmd": "./setup.sh",
        "hooks": {
            "guard": "verif",
            "enable": "all harness builds pass -tags verif; no source hooks are needed in /repo (everything is observed at the public API, see DESIGN.md section 1)",
            "baseline_off_cmd": "cd /repo && export GOFLAGS=-mod=mod GOPROXY=off GOSUMDB=off GOTOOLCHAIN=local && go test -vet=off -count=1 -timeout 25m ./... && cd cmd/participle && go test -vet=off -count=1 -timeout 25m ./...",
            "source_commits": [],
            "add_only": True,
        },
        "engines": [
            {"name": "vdriver", "path": "/verif/harness", "serves_properties": sorted(CHECKS), "kind_free_text": "Go harness: parent runner + journalled child processes; reference-model, metamorphic and invariant monitors; Go race detector for C09"},
        ],
        "checks": checks,
        "not_applicable": na,
        "notes": "Runtime monitoring only. ./check <ID> <tier> rebuilds the harness against /repo's working tree (module replace) on every run. known_findings.json lists catalogued defects; VERIF_SEED selects the PRNG seed.",
    }
    json.dump(m, open(os.path.join(ROOT, "MANIFEST.json"), "w"), indent=1)
    print("wrote MANIFEST.json with", len(checks), "checks,", len(na), "not claimed")
main()
