#!/usr/bin/env python3
"""Regenerates /verif/MANIFEST.json from the table below (kept in one place so
the manifest stays valid and consistent with what is built)."""
import json, os, sys
ROOT = os.path.dirname(os.path.dirname(os.path.abspath(__file__)))

CHECKS = {
 # id: (technique, level text, level note, design_ref)
 "C12": ("explicit executable model compared after every operation of random and exhaustively enumerated operation histories",
         "Runtime comparison of the real PeekingLexer with an executable model on every observable after every operation; thorough additionally enumerates a small scope exhaustively. Held on the executions listed in the evidence, nothing more.",
         "Trusted: the 80-line model (peekmodel) as a faithful reading of the property's sentences; Go's == on lexer.Token.",
         "DESIGN.md 3.3, 4 C12"),
}
PENDING = {}
def load_pending():
    ids = [json.loads(l)["id"] for l in open(os.path.join(ROOT, "properties.jsonl"))]
    return [i for i in ids if i not in CHECKS]

def main():
    checks = []
    for pid, (tech, text, note, ref) in sorted(CHECKS.items()):
        checks.append({
            "property_id": pid,
            "quick_cmd": f"./check {pid} quick",
            "thorough_cmd": f"./check {pid} thorough",
            "evidence_file": f"/verif/evidence/{pid}.json",
            "replay_cmd_template": f"./check {pid} --replay {{path}}",
            "engine": "vdriver",
            "level_claimed": {"category": "exploration", "text": text, "design_ref": ref},
            "level_note": note,
            "technique": tech,
        })
    na = [{"property_id": p, "reason": PENDING.get(p, "check not built yet in this revision (runtime monitor planned in DESIGN.md section 4); not claimed until it runs silent on the unchanged tree")} for p in load_pending()]
    m = {
        "version": 1,
        "setup_cmd": "./setup.sh",
        "hooks": {
            "guard": "verif",
            "enable": "all harness builds pass -tags verif; no source hooks are needed in /repo (everything is observed at the public API, see DESIGN.md section 1)",
            "baseline_off_cmd": "cd /repo && export GOFLAGS=-mod=mod GOPROXY=off GOSUMDB=off GOTOOLCHAIN=local && go test -vet=off -count=1 -timeout 25m ./... && cd cmd/participle && go test -vet=off -count=1 -timeout 25m ./...",
            "source_commits": [],
            "add_only": True,
        },
        "engines": [
            {"name": "vdriver", "path": "/verif/harness", "serves_properties": sorted(CHECKS), "kind_free_text": "Go harness: parent runner + journalled child processes; reference-model, metamorphic and invariant monitors; Go race detector for C09"},
        ],
        "checks": checks,
        "not_applicable": na,
        "notes": "Runtime monitoring only. ./check <ID> <tier> rebuilds the harness against /repo's working tree (module replace) on every run. known_findings.json lists catalogued defects; VERIF_SEED selects the PRNG seed.",
    }
    json.dump(m, open(os.path.join(ROOT, "MANIFEST.json"), "w"), indent=1)
    print("wrote MANIFEST.json with", len(checks), "checks,", len(na), "not claimed")
main()
