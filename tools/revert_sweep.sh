#!/bin/bash
# tools/revert_sweep.sh - reverse-applies every fix: commit of /repo in turn (working tree only, undone afterwards)
# and runs the quick check(s) that own the defect: each must report a violation again (DESIGN.md 8.2).
# Commits are looked up by subject, so the script survives a tidied history.
cd /verif
run() { sub="$1"; shift; c=$(git -C /repo log --format='%h %s' c4ba82b..HEAD | grep -F "$sub" | cut -d' ' -f1 | tr '\n' '+' | sed 's/+$//'); echo "== revert $c ($sub): $*"; tools/mutcheck.sh -R:$c "$@" 2>&1 | grep -E "exit=|cannot" | cut -c1-200; }
run "optional group does not participate" C07 C03
run "Pop with only the initial state" C07
run "Return() reached in the initial state" C07
run "positions EOF of an empty input" C04 C06
run "captures of an enclosing production leak" C02 C01
run "union.Parse picks the member template" C01 C06
run "ebnf.Term.String drops the negation" C14
run "modifier applied to a modified group" C14
run "left recursion goes undetected" C08
run "Unquote mangles" C18
run "EBNF printing panics on anonymous struct" C19
run "modifier, capture or negation with no operand" C19
run "capturing an empty match into a lexer.Token" C06 C01
run "never matches multi-byte literals" C05
run "rejects the last character of the input" C05
run "empty-match and no-match operators are inverted" C05
run "loops forever when a repetition body" C05
run "against the whole input" C05
run "emit tokens of lower-case" C05
run "generated lexer panics when Pop or Return" C05
run "lexer generator mistakes an escaped backslash" C05
run "stateful lexer treats an escaped backslash" C03
run "fold partners of a different byte length" C05
run "token run of a capture starts at elided tokens" C01 C10 C17
run "Parseable with a value receiver" C19
run "Elide() of an unknown token type" C06
run "negated negation as" C14
run "field types the parser cannot fill" C06
# the slice-of-TextUnmarshaler repair: with the later "cannot fill" repair in place its panic is intercepted as an
# error, so the two are reverse-applied together (newest first)
lookup() { git -C /repo log --format='%h %s' c4ba82b..HEAD | grep -F "$1" | cut -d' ' -f1; }
pair="$(lookup "field types the parser cannot fill")+$(lookup "slice of encoding.TextUnmarshaler structs")"
echo "== revert $pair (both capture-target repairs): C06"; tools/mutcheck.sh -R:$pair C06 2>&1 | grep -E "exit=|cannot" | cut -c1-200
run "Unquote panics on a token shorter" C06
run "slice or pointer type that is its own element type" C19
run "Union() with a nil member" C19
run "productions the root does not reach" C08
# Repairs whose reverse patch no longer applies on its own, because a later repair touches the same lines, are
# reverse-applied together with those later repairs (newest first).
chain() { ids=$1; shift; cs=""; IFS='|' read -ra subs <<< "$ids"; for sub in "${subs[@]}"; do cs="$cs+$(lookup "$sub")"; done; cs=${cs#+}; echo "== revert chain $cs: $*"; tools/mutcheck.sh -R:$cs "$@" 2>&1 | grep -E "exit=|cannot" | cut -c1-200; }
chain "Unquote panics on a token shorter|Unquote mangles" C18
chain "negated negation as|EBNF printing panics on anonymous struct" C19
chain "negated negation as|EBNF printing panics on anonymous struct|modifier applied to a modified group" C14
chain "fold partners of a different byte length|lexer generator mistakes an escaped backslash" C05
chain "fold partners of a different byte length|lexer generator mistakes an escaped backslash|against the whole input|loops forever when a repetition body|empty-match and no-match operators are inverted|rejects the last character of the input|never matches multi-byte literals" C05
run "state without rules is lost" C16
