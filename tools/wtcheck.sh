#!/bin/bash
# tools/wtcheck.sh <worktree> <seeded-name> <ID>... — runs quick checks against a scratch worktree (brought to /repo's HEAD)
# with one seeded change applied, leaving /repo alone. Prints "<name> <ID> exit=<n> <first violation>".
export GOFLAGS=-mod=mod GOPROXY=off GOSUMDB=off GOTOOLCHAIN=local
WT="$1"; NAME="$2"; shift 2
git -C $WT checkout -q -- . ; git -C $WT checkout -q --detach $(git -C /repo rev-parse HEAD) || exit 2
git -C $WT apply /verif/seeded/$NAME/patch.diff || { echo "$NAME: patch does not apply"; exit 2; }
for id in "$@"; do
  o=$(cd /verif && VERIF_REPO=$WT VERIF_NOEVIDENCE=1 ./check $id quick 2>&1 | tr -d "\000"; exit ${PIPESTATUS[0]}); c=$?
  echo "$NAME $id exit=$c $(echo "$o" | grep -m1 -A1 'VIOLATION' | tr '\n' ' ' | cut -c1-330)"
done
git -C $WT checkout -q -- .
