#!/usr/bin/env python3
"""Prints a markdown table of what the last run of each check covered (from evidence/*.json)."""
import json,glob,os
print('| id | tier | evaluations | distinct non-trivial | batches | wall s |')
print('|---|---|---|---|---|---|')
for f in sorted(glob.glob('/verif/evidence/C*.json')):
    e=json.load(open(f)); c=e['coverage']
    print('| %s | %s | %s | %s | %s/%s | %.0f |'%(e['property_id'],e['tier'],f"{c['evaluations']:,}",f"{c['distinct_nontrivial']:,}",c.get('batches_completed','?'),c.get('batches','?'),e['wall_s']))
