#!/bin/bash
# tools/seeded_sweep.sh [ids...] — applies every seeded change to /repo in turn (git apply), runs the quick check of the
# property it breaks, undoes it (git checkout -- .) and prints one line per change. Exit 1 if a change goes unreported.
cd /verif || exit 2
missed=0
for d in ${@:-seeded/*/}; do
  d=${d%/}; name=$(basename $d); prop=${name%%-*}; d=/verif/seeded/$name
  if grep -q '"superseded"' $d/meta.json; then echo "$name SUPERSEDED (no longer breaks the property on the current HEAD; see meta.json)"; continue; fi
  if ! git -C /repo apply --check $d/patch.diff 2>/dev/null; then echo "$name SKIP (patch no longer applies to /repo HEAD)"; continue; fi
  r=$(tools/mutcheck.sh $d/patch.diff $prop 2>&1 | head -1 | cut -c1-220)
  case "$r" in *exit=1*) echo "$name detected: $r";; *) echo "$name NOT DETECTED: $r"; missed=$((missed+1));; esac
done
echo "unreported seeded changes: $missed"
[ $missed -eq 0 ]
