#!/bin/bash
# tools/mutcheck.sh <patch-file|-R:commit[+commit...]> <ID>...   — apply a change to /repo, run the quick checks, undo it.
# Prints one line per check: "<ID> exit=<n> <first VIOLATION/KNOWN line>".
P="$1"; shift
cd /repo || exit 2
if [[ "$P" == -R:* ]]; then
  # one commit, or several joined by '+' (reverse-applied in the order given: newest first)
  for c in $(echo "${P#-R:}" | tr '+' ' '); do
    git show "$c" | git apply -R || { echo "cannot reverse-apply $c"; git checkout -- . ; exit 2; }
  done
else
  case "$P" in /*) ;; *) P="/verif/$P";; esac
  git apply "$P" || { echo "cannot apply $P"; exit 2; }
fi
trap 'git -C /repo checkout -- . ; git -C /repo clean -fdq -e cmd/participle/participle >/dev/null 2>&1' EXIT
for id in "$@"; do
  out=$(cd /verif && VERIF_NOEVIDENCE=1 ./check "$id" quick 2>&1 | tr -d "\000"; exit ${PIPESTATUS[0]})
  code=$?
  echo "$id exit=$code $(echo "$out" | grep -m1 -A1 'VIOLATION' | tr '\n' ' ' | cut -c1-400)"
  echo "$out" | tail -1
done
