#!/bin/bash
# tools/confirm_round.sh <worktree-prefix> <PROP> [extra checks...] — confirms the changes m1, m2 a sub-agent left in
# <prefix><PROP>/_mutants (DemoDir taken from mN.md) with tools/confirm_mutant.sh, against the scratch worktree (USE_WT),
# and files them as the next free seeded/<PROP>-mK.
PFX="$1"; P="$2"; shift 2
for N in 1 2; do
  M=$PFX$P/_mutants
  [ -f $M/m$N.diff ] || { echo "$P m$N: no diff"; continue; }
  [ -f $M/m$N.md ] || echo "Change: (no notes written)" > $M/m$N.md
  DD=$(grep -m1 -i '^DemoDir:' $M/m$N.md | sed 's/^[Dd]emo[Dd]ir:[ ]*//; s/[` ]//g'); DD=${DD:-.}
  K=$(ls -d /verif/seeded/$P-m* 2>/dev/null | sed 's/.*-m//' | sort -n | tail -1); K=${K:-0}
  WT_PREFIX=$PFX OUT_OFFSET=$((K+1-N)) USE_WT=1 /verif/tools/confirm_mutant.sh $P $N $DD $P "$@"
done
