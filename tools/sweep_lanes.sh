#!/bin/bash
# tools/sweep_lanes.sh <nlanes> <ids...> — seeded sweep in parallel lanes: every kept change of the named properties is
# applied to a scratch worktree of /repo's HEAD (one per lane, removed afterwards) and the quick check of its property is
# run against that worktree (tools/wtcheck.sh). /repo itself is not touched. Output: logs/seeded_sweep_lanes.log
cd /verif || exit 2
N=$1; shift
LIST=$(for p in "$@"; do ls -d seeded/$p-m* | sed 's#seeded/##' | sort -t m -k2 -n; done)
i=0; for n in $LIST; do echo $n >> /tmp/sweep_lane_$((i % N)).lst; i=$((i+1)); done
for l in $(seq 0 $((N-1))); do
  ( WT=/tmp/sweep_wt_$l; git -C /repo worktree add -q --detach $WT HEAD
    for n in $(cat /tmp/sweep_lane_$l.lst); do
      if grep -q '"superseded"' seeded/$n/meta.json; then echo "$n SUPERSEDED"; continue; fi
      tools/wtcheck.sh $WT $n ${n%%-*} 2>&1 | grep -v conda | cut -c1-260
    done > /tmp/sweep_lane_$l.out 2>&1
    git -C /repo worktree remove --force $WT ) &
done
wait
cat /tmp/sweep_lane_*.out | sort > logs/seeded_sweep_lanes.log; rm -f /tmp/sweep_lane_*
grep -c 'exit=1' logs/seeded_sweep_lanes.log; grep -v 'exit=1' logs/seeded_sweep_lanes.log
