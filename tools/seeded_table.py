#!/usr/bin/env python3
"""Prints the markdown table of seeded changes and which checks caught them (DESIGN.md section 8)."""
import json, glob, os
rows=[]
for d in sorted(glob.glob('/verif/seeded/*/')):
    m=json.load(open(d+'meta.json'))
    name=os.path.basename(d.rstrip('/'))
    first=''
    for line in m['needs_to_manifest'].split('\n'):
        line=line.strip().lstrip('#').strip()
        if line and not line.lower().startswith('mutant') and len(line)>20:
            first=line; break
    det=', '.join('%s: %s'%(k,v) for k,v in sorted(m.get('checks_run',{}).items()))
    rows.append('| %s | %s | %s |'%(name, first[:230].replace('|','/'), det))
print('| seeded change | what it is (from the author\'s notes) | quick checks run against it |')
print('|---|---|---|')
print('\n'.join(rows))
