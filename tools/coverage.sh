#!/bin/bash
# tools/coverage.sh [tier] [ids...] — reach instrument, not a check: runs the named checks (default: all, quick) with every
# binary that links participle built with `go build -cover -coverpkg=participle/...`, merges the counters all parents,
# children and the generator tool wrote, and prints statement coverage of /repo per file plus every function of the library
# that no workload entered. Output: logs/coverage_<tier>.txt (summary) — the evidence files are not touched.
export GOFLAGS=-mod=mod GOPROXY=off GOSUMDB=off GOTOOLCHAIN=local
cd /verif || exit 2
TIER=${1:-quick}; shift
IDS=${@:-C01 C02 C03 C04 C05 C06 C07 C08 C09 C10 C11 C12 C13 C14 C15 C16 C17 C18 C19}
COV=$(mktemp -d /tmp/verif-cov-XXXXXX); trap 'rm -rf "$COV"' EXIT
mkdir -p $COV/raw $COV/merged
for id in $IDS; do
  VERIF_COVER=$COV/raw VERIF_NOEVIDENCE=1 ./check $id $TIER >$COV/$id.log 2>&1; echo "$id exit=$? $(grep -c VIOLATION $COV/$id.log) violation lines"
done
go tool covdata merge -i=$COV/raw -o=$COV/merged || exit 2
go tool covdata textfmt -i=$COV/merged -o=$COV/cover.txt || exit 2
OUT=logs/coverage_$TIER.txt
python3 - $COV/cover.txt "$IDS" $TIER > $OUT <<'PY'
import sys,re,collections,subprocess
prof,ids,tier=sys.argv[1:4]
files=collections.defaultdict(lambda:[0,0]); blocks=collections.defaultdict(list)
for l in open(prof):
    if l.startswith('mode:'): continue
    m=re.match(r'(.*):(\d+)\.(\d+),(\d+)\.(\d+) (\d+) (\d+)$',l.strip())
    f,l0,c0,l1,c1,n,cnt=m.groups(); n=int(n); cnt=int(cnt)
    if '_examples' in f or '/scripts/' in f or not f.startswith('github.com/alecthomas/participle'): continue
    f=f.replace('github.com/alecthomas/participle/v2/','')
    files[f][0]+=n; files[f][1]+= n if cnt>0 else 0
    blocks[f].append((int(l0),int(l1),n,cnt))
head=subprocess.run(['git','-C','/repo','rev-parse','--short','HEAD'],capture_output=True,text=True).stdout.strip()
print(f"statement coverage of /repo ({head}) under the {tier} checks {ids}")
tot=[0,0]
for f in sorted(files):
    t,c=files[f]; tot[0]+=t; tot[1]+=c
    print(f"{f:40s} {c:5d}/{t:5d} {100*c/t:5.1f}%")
print(f"{'TOTAL':40s} {tot[1]:5d}/{tot[0]:5d} {100*tot[1]/tot[0]:5.1f}%")
print("\nuncovered blocks (file:first-last line, statements):")
for f in sorted(blocks):
    un=sorted((a,b,n) for a,b,n,c in blocks[f] if c==0)
    # merge adjacent
    out=[]
    for a,b,n in un:
        if out and a<=out[-1][1]+1: out[-1]=(out[-1][0],max(b,out[-1][1]),out[-1][2]+n)
        else: out.append((a,b,n))
    for a,b,n in out: print(f"  {f}:{a}-{b} ({n})")
PY
head -40 $OUT
