#!/bin/bash
# tools/confirm_mutant.sh <PROP> <N> <demo-dir-relative> [checks...]
# Confirms a sub-agent's mutant in its scratch worktree (applies, builds, suite passes, demo fails with / passes without),
# then runs the named quick checks against it on /repo and stores it under /verif/seeded/<PROP>-m<N>/.
export GOFLAGS=-mod=mod GOPROXY=off GOSUMDB=off GOTOOLCHAIN=local
P="$1"; N="$2"; DDIR="$3"; shift 3
WT=${WT_PREFIX:-/tmp/wt-}$P; M=$WT/_mutants
ON=$((N+${OUT_OFFSET:-0}))
cd $WT || exit 2
git checkout -q -- . ; git clean -fdq -e _mutants
DEMO=$DDIR/zz_m${N}_demo_test.go
res() { echo "$1" ; }
cp $M/m${N}_demo_test.go $DEMO
( cd $DDIR && go test -count=1 -run . . >/tmp/demo_clean.log 2>&1 ); CLEAN=$?
rm -f $DEMO
git apply $M/m${N}.diff || { echo "APPLY-FAILED"; exit 1; }
go build ./... >/dev/null 2>&1; B1=$?
( cd cmd/participle && go build -o /dev/null . >/dev/null 2>&1 ); B2=$?
go test -vet=off -count=1 ./... >/tmp/suite_mut.log 2>&1; SUITE=$?
cp $M/m${N}_demo_test.go $DEMO
( cd $DDIR && go test -count=1 -run . . >/tmp/demo_mut.log 2>&1 ); MUT=$?
rm -f $DEMO
git checkout -q -- . ; git clean -fdq -e _mutants
echo "confirm $P m$ON: build=$B1/$B2 suite_with_mutant=$SUITE demo_clean=$CLEAN demo_mutant=$MUT"
if [ $B1 -ne 0 ] || [ $B2 -ne 0 ] || [ $SUITE -ne 0 ] || [ $CLEAN -ne 0 ] || [ $MUT -eq 0 ]; then echo "NOT-CONFIRMED"; tail -5 /tmp/suite_mut.log /tmp/demo_clean.log /tmp/demo_mut.log | cut -c1-200; exit 1; fi
OUT=/verif/seeded/$P-m$ON; mkdir -p $OUT
cp $M/m${N}.diff $OUT/patch.diff; cp $M/m${N}_demo_test.go $OUT/demo_test.go; cp $M/m${N}.md $OUT/notes.md
DET=""
for id in "$@"; do
  if [ -n "${USE_WT:-}" ]; then
    # run the check against the scratch worktree with the change applied (leaves /repo alone)
    ( cd $WT && git apply $OUT/patch.diff )
    o=$(cd /verif && VERIF_REPO=$WT VERIF_NOEVIDENCE=1 ./check $id quick 2>&1 | tr -d "\000"; exit ${PIPESTATUS[0]}); c=$?
    ( cd $WT && git checkout -q -- . )
    r="$id exit=$c $(echo "$o" | grep -m1 -A1 'VIOLATION' | tr '\n' ' ' | cut -c1-300)"
  else
  r=$(/verif/tools/mutcheck.sh $OUT/patch.diff $id 2>&1 | head -1 | cut -c1-300)
  fi
  echo "  $r"
  DET="$DET$id:$(echo "$r" | grep -o 'exit=[0-9]*') "
done
python3 - "$P" "$ON" "$DDIR" "$DET" <<'PY'
import json,sys
p,n,ddir,det=sys.argv[1:5]
notes=open(f'/verif/seeded/{p}-m{n}/notes.md').read()
meta={"breaks_property":p,"source":"independent sub-agent given only the property text and a scratch worktree","demo_dir":ddir,
 "needs_to_manifest":notes[:1500],
 "confirmed":{"applies":True,"builds":True,"existing_suite_passes_with_change":True,"demo_fails_with_change":True,"demo_passes_without":True},
 "checks_run":{k.split(':')[0]:("detected" if k.endswith("exit=1") else "NOT detected ("+k.split(':')[1]+")") for k in det.split()}}
json.dump(meta,open(f'/verif/seeded/{p}-m{n}/meta.json','w'),indent=1)
PY
