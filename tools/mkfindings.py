#!/usr/bin/env python3
"""Regenerates /verif/known_findings.json from the table below, resolving each
fix: commit of /repo by its subject (hashes change when history is tidied)."""
import json,subprocess
log=subprocess.check_output(['git','-C','/repo','log','--format=%h\t%s','c4ba82b..HEAD']).decode().strip().split('\n')
commits={l.split('\t')[1]:l.split('\t')[0] for l in log}
def h(sub):
    for s,c in commits.items():
        if sub in s: return c
    raise Exception(sub)
OPEN=[]  # no open findings at present
FIXED=[
 ("C07","optional group does not participate","lexer/stateful.go StatefulLexer.Next","Next panicked (slice bounds out of range [:-1]) when an action rule's optional group did not participate, e.g. rule `(<)?\\(([a-c]*)` with Push on input \"(ab\""),
 ("C03","optional group does not participate","lexer/stateful.go StatefulLexer.Next","lexer panicked (non-participating optional group of a pushing rule) on input for which the rules define a token stream, e.g. `(<)?\\(([a-c]*)` Push on \"(ab\""),
 ("C07","Pop with only the initial state","lexer/stateful.go ActionPop.applyAction","Pop rule reachable from Root emptied the state stack; the following Next panicked with index out of range [-1], e.g. Root:{B=`-` pop} on \"-x\""),
 ("C07","Return() reached in the initial state","lexer/stateful.go StatefulLexer.Next","Return() reached in the initial state panicked with index out of range [-1], e.g. Root:{A=`a`; return} on \"b\""),
 ("C04","positions EOF of an empty input","lexer/text_scanner.go textScannerLexer.Next","every text/scanner constructor on the empty input: EOF token at 0:0 instead of 1:1"),
 ("C06","positions EOF of an empty input","lexer/text_scanner.go textScannerLexer.Next","errors at EOF of an empty input (default lexer) carried the invalid position 0:0"),
 ("C02","captures of an enclosing production leak","nodes.go strct.Parse / context.go Apply","captures deferred by the enclosing production were applied when a nested production completed or failed inside an attempt that was later abandoned: `X string \"( @Ident\"; B *B \"@@ \\\"x\\\" )\"; Y string \"| @Ident\"` on `foo (bar) y` gave X:\"foo\" and Y:\"foo\" (witness grammars W1, W2)"),
 ("C01","captures of an enclosing production leak","nodes.go strct.Parse / context.go Apply","same root cause as C02: AST held values not captured on the accepted derivation"),
 ("C01","union.Parse picks the member template","nodes.go union.Parse","Union[U](A{}, &B{}) with only *B implementing U: a match of B panicked in reflect.Value.Convert (member template looked up by value index; witness grammar W3)"),
 ("C06","union.Parse picks the member template","nodes.go union.Parse","parse panicked (reflect.Value.Convert) for a union whose first member is declared by value and whose matching member needs a pointer receiver"),
 ("C14","ebnf.Term.String drops the negation","ebnf/ebnf.go Term.String","printing a parsed EBNF tree omitted '~': `A = ~\"x\" \"y\" .` printed as `A = \"x\" \"y\" .`"),
 ("C14","modifier applied to a modified group","ebnf.go buildEBNF","Parser.String() printed `( \"a\"+ )?` as `\"a\"+?` (and `( ~( x+ ) )?` as `~(x)+?`), which the ebnf package cannot parse"),
 ("C14","negated negation as ~~x","ebnf.go buildEBNF","Parser.String() printed `~( ~Int )` as `~~<int>` (unparseable) and `~[ \"a\" ]` as `~\"a\"?` (reads back as `(~\"a\")?`); found by the C14 seed sweep and by the structural comparison added to C14"),
 ("C08","left recursion goes undetected","validate.go isLeftRecursive","left recursion undetected when the recursive reference follows a multi-term earlier alternative, a nullable or lookahead prefix, or goes through another production/union in those positions, e.g. `A = \"t\" \"u\" | A \"e\"`"),
 ("C18","Unquote mangles","map.go unquote","Unquote turned \"\\xff\" into U+00FF and interpreted escapes inside back-quoted strings"),
 ("C19","EBNF printing panics on anonymous struct","ebnf.go buildEBNF","Build panicked (slice bounds out of range [:1]) rendering the left-recursion error for a cycle through an anonymous struct field"),
 ("C06","Elide() of an unknown token type","parser.go Build / getElidedTypes","Build accepted Elide(\"Nope\") and every Parse*/ParseString call on the built parser then panicked in getElidedTypes"),
 ("C06","slice of encoding.TextUnmarshaler structs","nodes.go setField","`A []T \"@Ident*\"` with T a struct implementing encoding.TextUnmarshaler builds, then every parse that captures panics in reflect.Append (value of type string is not assignable to type T); `[]*T` silently dropped every element (found through an independent reviewer's side remark, reproduced by the capture-target cases added to C06)"),
 ("C06","slice and pointer field types the parser cannot fill","nodes.go setField / conform","captures into `[][]string`, `[]complex64`, `[]uintptr`, `[][]int` panicked in reflect.Append and `@@` into `**T` / `[]**T` panicked in reflect.Value.Convert, where the same capture into a scalar of an unsupported type is reported as an error"),
 ("C06","Unquote panics on a token shorter","map.go unquote","a parser built with Unquote(...) panicked (slice bounds out of range [1:0]) in every Parse*/Lex call on an input with a one-byte token of a selected type, e.g. Unquote(\"Ident\") on \"a\" (found by the option cases of C06)"),
 ("C19","slice or pointer type that is its own element type","grammar.go indirectType","Build died with a fatal stack overflow for a field of type `type L []L` or `type P *P` (with @@ or a plain capture): indirectType recursed through Elem() without end (an independent reviewer's remark, reproduced by the static-type cases of C19)"),
 ("C19","Union() with a nil member","options.go Union","Build panicked (nil pointer dereference in parseType) for Union[I](A{}, nil)"),
 ("C08","productions the root does not reach","parser.go Build / validate.go","Build[Root](Union[U](A{})) accepted a left-recursive A when Root never uses U, and ParserForProduction[A] then handed out a parser that recurses without consuming input (an independent reviewer's remark; reproduced by the unused-union templates and by random C08 grammars that declare a union they do not use)"),
 ("C16","state without rules is lost","lexer/stateful.go New / Rules","a definition with an empty state (`\"Empty\": {}` as a push target) marshalled to JSON without that state, and lexer.New on the unmarshalled rules failed with `push to unknown state` (an independent reviewer's remark; reproduced by the hollow-state rule maps added to C16)"),
 ("C19","Parseable with a value receiver","grammar.go parseType","Build panicked (reflect: Elem of invalid type) for a field or root type that implements Parseable with a value receiver (found by the static-type cases added to C19 after an independent reviewer's remark)"),
 ("C19","modifier, capture or negation with no operand","grammar.go parseModifier/parseCapture/parseNegation","Build panicked (value \"<nil>\") on tags `@`, `?`, `!`, `~`, `\"a\" @`, `! !`, parser:\"@\""),
 ("C06","capturing an empty match into a lexer.Token","nodes.go setField","`Tok lexer.Token \"@(\\\"a\\\"?)\"` on input without the optional token: index out of range [0] in setField (witness grammar W4)"),
 ("C07","emits empty tokens forever","cmd/participle/codegen.go.tmpl Next","a generated lexer whose selected rule matched the empty string at an offset > 0 returned the same empty token on every Next call (never returned, for a lower-case rule), where the runtime lexer reports `rule did not match any input`: Root:{Open=`\\(` push(In)} In:{Close=`\\)` pop; Body=`(?:[^()]*)+`} on \"(()\" gave 6 tokens from 3 input bytes (found by the generated-lexer part added to C07 in round seven; an independent reviewer had noted the behaviour in passing)"),
 ("C05","never matches multi-byte literals","cmd/participle/gen_lexer_cmd.go generateRegexMatch","generated matcher used the rune count of a literal as byte length: rule `é` never matched, `(世)` did not compile"),
 ("C05","rejects the last character of the input","cmd/participle/gen_lexer_cmd.go generateRegexMatch","generated matcher for `.` / `(?s:.)` failed on the last character of the input and indexed past its end"),
 ("C05","empty-match and no-match operators are inverted","cmd/participle/gen_lexer_cmd.go generateRegexMatch","`[b](?:x|xs)(0)(b)`-style patterns with an empty alternative never matched in the generated lexer"),
 ("C05","loops forever when a repetition body","cmd/participle/gen_lexer_cmd.go generateRegexMatch","generated matcher for `[0-9cy]_ kyx1(?:|k)*y` never returned (repetition body matching the empty string)"),
 ("C05","against the whole input","cmd/participle/gen_lexer_cmd.go generateRegexMatch","`(?:\\bsc\\)/...)+`: ^, \\b, \\B were evaluated against the whole input instead of the text remaining at the token start"),
 ("C05","emit tokens of lower-case","cmd/participle/codegen.go.tmpl","generated lexer emitted tokens of lower-case rules that the runtime lexer elides"),
 ("C05","generated lexer panics when Pop or Return","cmd/participle/codegen.go.tmpl","generated lexer panicked (index out of range [-1]) after Pop/Return in the initial state where the runtime lexer reports an error"),
 ("C07","generated lexer panics when Pop or Return","cmd/participle/codegen.go.tmpl","generated lexer: Next panicked after Pop/Return in the initial state"),
 ("C05","lexer generator mistakes an escaped backslash","cmd/participle/gen_lexer_cmd.go","pattern with an escaped backslash followed by a digit (`\\\\0`) was routed to the back-reference code path, whose emitted code does not compile"),
 ("C03","stateful lexer treats an escaped backslash","lexer/stateful.go New/BackrefRegex","in a back-reference pattern an escaped backslash followed by a digit (`\\1\\\\2`) was substituted like a back-reference"),
 ("C05","fold partners of a different byte length","cmd/participle/gen_lexer_cmd.go","(?i) literal `(?i:0\\b[^a-c]ysac)` did not match input with U+017F / U+212A fold partners in the generated lexer"),
 ("C01","token run of a capture starts at elided tokens","nodes.go capture.Parse / context.go","a lexer.Token / []lexer.Token capture whose first matched token is preceded by elided tokens held the elided token(s) first: grammar `\"1\" Ident @Kw` ([]lexer.Token) with Elide(WS) on \" 1 d From \" gave [\" \" \"From\"] (witness grammar W5)"),
 ("C10","token run of a capture starts at elided tokens","nodes.go capture.Parse / context.go","`A lexer.Token \"@Ident\"` with Elide(\"WS\"): the captured (type, text) depended on spacing (\" a\" captured the whitespace token, \"a\" the identifier)"),
 ("C17","token run of a capture starts at elided tokens","nodes.go capture.Parse / setField","a failed numeric conversion preceded by an elided token was located at the elided token: `V int8 \"@Tok\"` with Elide(\"WS\") on \" 1_000\": error at 1:1 instead of 1:2"),
]
out=list(OPEN)
for prop,sub,site,what in FIXED:
    c=h(sub)
    out.append({"property":prop,"id":"fixed-"+prop+"-"+sub.split()[0].lower()+"-"+c,"status":"fixed","commit":c,"site":site,"what":what,
                "line":"fixed: property=%s %s %s"%(prop,c,what)})
d={"_comment":"Catalogue of genuine defects of alecthomas/participle found by the checks. status=open: still present; the owning check prints KNOWN-FINDING and exits 0 for violations matching exactly that signature class. status=fixed: repaired by the named fix: commit in /repo; a fixed entry suppresses nothing (the witness stays a regression case inside the check). Never written at run time; regenerate with tools/mkfindings.py.",
   "findings":out}
json.dump(d,open('/verif/known_findings.json','w'),indent=1,ensure_ascii=False)
print(len(out),"entries,",len(OPEN),"open")
