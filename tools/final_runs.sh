#!/bin/bash
# tools/final_runs.sh - the silence sweeps of DESIGN.md 8.3 on /repo's working tree: every quick check at
# VERIF_SEED 1-5 (no evidence written), every thorough check at seed 2 (no evidence) and then at seed 1
# (writes /verif/evidence/<id>.json). FINAL_QUICK_SEEDS / FINAL_THOROUGH_SEEDS select a subset. Prints one line per run; anything but exit=0 is followed by its report.
cd /verif
ALL="C01 C02 C03 C04 C05 C06 C07 C08 C09 C10 C11 C12 C13 C14 C15 C16 C17 C18 C19"
echo "##### QUICK SEEDS"
for s in ${FINAL_QUICK_SEEDS:-1 2 3 4 5}; do for p in $ALL; do
  out=$(VERIF_NOEVIDENCE=1 VERIF_SEED=$s ./check $p quick 2>&1 | tr -d '\000'; exit ${PIPESTATUS[0]}); code=$?
  echo "quick seed=$s $p exit=$code $(echo "$out" | tail -1 | cut -c1-150)"
  if [ $code -ne 0 ] || echo "$out" | grep -q "VIOLATION\|KNOWN-FINDING"; then echo "$out" | grep -m2 -A1 "VIOLATION\|KNOWN\|INCONCLUSIVE-EMPTY" | cut -c1-900; fi
done; done
echo "##### THOROUGH"
for s in ${FINAL_THOROUGH_SEEDS:-2 1}; do for p in C12 C03 C04 C07 C16 C17 C18 C19 C05 C14 C15 C06 C08 C11 C09 C13 C10 C01 C02; do
  NE=1; [ $s = 1 ] && NE=""
  t0=$(date +%s); out=$(VERIF_NOEVIDENCE=$NE VERIF_SEED=$s ./check $p thorough 2>&1 | tr -d '\000'; exit ${PIPESTATUS[0]}); code=$?; t1=$(date +%s)
  echo "thorough seed=$s $p exit=$code wall=$((t1-t0))s $(echo "$out" | tail -1 | cut -c1-150)"
  if [ $code -ne 0 ] || echo "$out" | grep -q "VIOLATION\|KNOWN-FINDING"; then echo "$out" | grep -m2 -A1 "VIOLATION\|KNOWN\|INCONCLUSIVE-EMPTY" | cut -c1-900; fi
done; done
echo "##### DONE"
